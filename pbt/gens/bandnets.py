"""Networks whose OMS differ in amplifier bands (C15, and the narrow-band OMS of C14).

Explicit multiband-capable library (entries modelled on tests/data/eqpt_config_multiband.json of the repository,
copied here as explicit JSON with *generated band edges*), and a small ROADM-mesh builder using the uid scheme of
netgen (`fiber L<l>.<ab|ba>.<k>`, `booster L<l>.<ab|ba>`, `amp L<l>.<ab|ba>.<k>`, `preamp L<l>.<ab|ba>`), so that
`netgen.link_of` gives the ground-truth (link, direction) of every line element, including those inserted by design.

Link "band classes" (what the user placed on the link; everything not placed is left to auto-design):
    auto     nothing placed
    C        single-band booster of the full C model
    Cred     single-band amplifier with raised f_min (reduced band, same f_max); Cred2: a second such model
    Cshort   single-band amplifier with lowered f_max
    W        single-band amplifiers whose band spans L and C together, on every amplifier site of the link
    L        single-band L amplifier(s)
    CL       Multiband_amplifier C+L (type_variety, with or without the per-band amplifiers list)
    CLred    Multiband_amplifier with a reduced C or reduced L constituent
    CLauto   untyped Multiband_amplifier booster, C+L per-degree design bands on the ROADM
    L, Lred  single-band L amplifiers + matching per-degree design band; Lnodb: the same without the design band
"""
from hypothesis import strategies as st

from . import netgen

# ----------------------------------------------------------------------------------------- library

C_LO = [191.25e12, 191.275e12, 191.3e12, 191.28e12]
C_HI = [196.15e12, 196.125e12, 196.1e12, 196.13e12]
C_RED_LO = [192.25e12, 192.0e12, 193.1e12, 193.12e12, 194.003e12]
C_SHORT_HI = [195.1e12, 194.0e12, 193.05e12, 195.997e12]
L_LO = [186.55e12, 186.5e12, 186.56e12]
L_HI = [190.05e12, 190.1e12, 190.04e12]
L_RED_LO = [187.3e12, 187.0e12, 188.002e12]
S_LO = [196.5e12, 196.45e12, 196.6e12]
S_HI = [200.5e12, 200.0e12, 199.05e12]


def _vg(name, band, gmin, gmax, nf_min=6, nf_max=10, p_max=21, design=True):
    return {'type_variety': name, 'f_min': band[0], 'f_max': band[1], 'type_def': 'variable_gain',
            'gain_flatmax': gmax, 'gain_min': gmin, 'p_max': p_max, 'nf_min': nf_min, 'nf_max': nf_max,
            'out_voa_auto': False, 'allowed_for_design': design}


def _mb(name, parts, design=True):
    return {'type_variety': name, 'type_def': 'multi_band', 'amplifiers': list(parts), 'allowed_for_design': design}


@st.composite
def band_edges(draw, same_fmax=False, third_band=False):
    c = (draw(st.sampled_from(C_LO)), draw(st.sampled_from(C_HI)))
    l = (draw(st.sampled_from(L_LO)), draw(st.sampled_from(L_HI)))
    extra = {'S': [draw(st.sampled_from(S_LO)), draw(st.sampled_from(S_HI))]} if third_band else {}
    return {**extra, 'C': list(c), 'L': list(l),
            'Cred': [draw(st.sampled_from(C_RED_LO)), c[1]],
            'Cred2': [draw(st.sampled_from(C_RED_LO)), c[1]],
            'Cshort': [c[0], c[1] if same_fmax else draw(st.sampled_from(C_SHORT_HI))],
            'Lred': [draw(st.sampled_from(L_RED_LO)), l[1]]}


def library(edges, si_band='C', design_reduced=False, spacing=50e9):
    """complete legacy-format equipment library; `edges` from band_edges()"""
    C, L, Cred, Cshort, Lred = (edges[k] for k in ('C', 'L', 'Cred', 'Cshort', 'Lred'))
    Cred2 = edges.get('Cred2', Cred)
    edfa = [
        _vg('C_std', C, 15, 26), _vg('C_low', C, 8, 16, 7, 11), _vg('C_high', C, 25, 35, 5.5, 7),
        _vg('Cred_std', Cred, 15, 26, design=design_reduced), _vg('Cred_low', Cred, 8, 16, 7, 11, design=design_reduced),
        _vg('Cred2_std', Cred2, 15, 26, design=False), _vg('Cred2_low', Cred2, 8, 16, 7, 11, design=False),
        _vg('Cshort_std', Cshort, 15, 26, design=design_reduced),
        _vg('Cshort_low', Cshort, 8, 16, 7, 11, design=design_reduced),
        _vg('L_std', L, 15, 26), _vg('L_low', L, 8, 16, 7, 11), _vg('L_high', L, 25, 35, 5.5, 7),
        _vg('Lred_std', Lred, 15, 26, design=design_reduced), _vg('Lred_low', Lred, 8, 16, 7, 11, design=design_reduced),
        _mb('MB_std', ['C_std', 'L_std']), _mb('MB_low', ['C_low', 'L_low']), _mb('MB_high', ['C_high', 'L_high']),
        _mb('MB_Cred', ['Cred_std', 'L_std'], design=False), _mb('MB_Cred_low', ['Cred_low', 'L_low'], design=False),
        _mb('MB_Lred', ['C_std', 'Lred_std'], design=False), _mb('MB_Lred_low', ['C_low', 'Lred_low'], design=False),
    ]
    # one single-band model wide enough for L and C together (its band contains both bands of the multiband models)
    edfa.append(_vg('W_std', [L[0], C[1]], 15, 26, design=False))
    edfa.append(_vg('W_low', [L[0], C[1]], 8, 16, 7, 11, design=False))
    if 'S' in edges:
        # a third band above C (gnpy names it 'unknown_band'); three-band models with their constituents in every order
        S = edges['S']
        edfa += [_vg('S_std', S, 15, 26, design=False), _vg('S_low', S, 8, 16, 7, 11, design=False)]
        for name, parts in MB3_PARTS.items():
            edfa.append(_mb(name, parts, design=False))
    if si_band == 'C':
        si = [max(C[0], 191.3e12) + 0.05e12, min(C[1], 196.1e12) - 0.05e12]
    else:
        si = [L[0] + 0.1e12, L[1] - 0.1e12]
    return {
        'Edfa': edfa,
        'Fiber': [{'type_variety': 'SSMF', 'dispersion': 1.67e-05, 'effective_area': 83e-12, 'pmd_coef': 1.265e-15}],
        'Span': [{'power_mode': True, 'delta_power_range_db': [0, 0, 0.5], 'max_fiber_lineic_loss_for_raman': 0.25,
                  'target_extended_gain': 2.5, 'max_length': 150, 'length_units': 'km', 'max_loss': 28, 'padding': 10,
                  'EOL': 0, 'con_in': 0, 'con_out': 0}],
        'Roadm': [{'target_pch_out_db': -20, 'add_drop_osnr': 38, 'pmd': 0, 'pdl': 0,
                   'restrictions': {'preamp_variety_list': [], 'booster_variety_list': []}}],
        'SI': [{'f_min': si[0], 'f_max': si[1], 'baud_rate': 32e9, 'spacing': spacing, 'power_dbm': 0,
                'power_range_db': [0, 0, 0.5], 'roll_off': 0.15, 'tx_osnr': 100, 'sys_margins': 0}],
        'Transceiver': [{'type_variety': 'T0', 'frequency': {'min': si[0], 'max': si[1]}, 'mode': [
            {'format': 'm0', 'baud_rate': 32e9, 'OSNR': 11, 'bit_rate': 100e9, 'roll_off': 0.15, 'tx_osnr': 100,
             'min_spacing': 37.5e9, 'cost': 1},
            {'format': 'm1', 'baud_rate': 32e9, 'OSNR': 15, 'bit_rate': 200e9, 'roll_off': 0.15, 'tx_osnr': 100,
             'min_spacing': 50e9, 'cost': 1},
            {'format': 'm2', 'baud_rate': 64e9, 'OSNR': 18, 'bit_rate': 400e9, 'roll_off': 0.15, 'tx_osnr': 100,
             'min_spacing': 75e9, 'cost': 1}]}],
    }


def entry_bands(lib_edfa):
    """ground truth: type_variety -> list of (f_min, f_max), straight from the library JSON"""
    single = {}
    for e in lib_edfa:
        if e['type_def'] != 'multi_band':
            single[e['type_variety']] = [netgen.amp_band(e)]
    out = dict(single)
    for e in lib_edfa:
        if e['type_def'] == 'multi_band':
            out[e['type_variety']] = [single[a][0] for a in e['amplifiers']]
    return out


# ----------------------------------------------------------------------------------------- topology

_OP = {'gain_target': None, 'delta_p': None, 'tilt_target': 0, 'out_voa': None}

SINGLE = {'W': ['W_std', 'W_low'], 'C': ['C_std', 'C_low', 'C_high'], 'Cred': ['Cred_std', 'Cred_low'], 'Cred2': ['Cred2_std', 'Cred2_low'], 'Cshort': ['Cshort_std', 'Cshort_low'],
          'L': ['L_std', 'L_low'], 'Lred': ['Lred_std', 'Lred_low']}
MULTI = {'CLS': ['MB3_CLS', 'MB3_LCS', 'MB3_SCL', 'MB3_SLC_low', 'MB3_CSL_low'], 'CL': ['MB_std', 'MB_low'], 'CLred': ['MB_Cred', 'MB_Cred_low', 'MB_Lred', 'MB_Lred_low']}
MB3_PARTS = {'MB3_CLS': ['C_std', 'L_std', 'S_std'], 'MB3_LCS': ['L_std', 'C_std', 'S_std'], 'MB3_SCL': ['S_std', 'C_std', 'L_std'],
             'MB3_SLC_low': ['S_low', 'L_low', 'C_low'], 'MB3_CSL_low': ['C_low', 'S_low', 'L_low']}
MB_PARTS = {**MB3_PARTS, 'MB_std': ['C_std', 'L_std'], 'MB_low': ['C_low', 'L_low'], 'MB_high': ['C_high', 'L_high'],
            'MB_Cred': ['Cred_std', 'L_std'], 'MB_Cred_low': ['Cred_low', 'L_low'],
            'MB_Lred': ['C_std', 'Lred_std'], 'MB_Lred_low': ['C_low', 'Lred_low']}


def _amp(uid, cls, variety, with_parts, city):
    meta = netgen._meta(city)
    if cls in SINGLE:
        return {'uid': uid, 'type': 'Edfa', 'type_variety': variety, 'operational': dict(_OP), 'metadata': meta}
    el = {'uid': uid, 'type': 'Multiband_amplifier', 'type_variety': variety, 'metadata': meta}
    if with_parts:
        el['amplifiers'] = [{'type_variety': p, 'operational': {'delta_p': 0, 'tilt_target': 0}} for p in MB_PARTS[variety]]
    return el


@st.composite
def chain(draw, lid, direction, cls, spans=(1, 3)):
    """one direction of a link of band class `cls` ('Lnodb' = L booster without a matching design band)"""
    tag = f'L{lid}.{direction}'
    n = draw(st.integers(*spans))
    els = []
    placed = False
    where = draw(st.sampled_from(['booster', 'booster', 'all', 'preamp', 'ila'])) if cls != 'auto' else 'none'
    if cls in ('L', 'Lred', 'Lnodb'):
        # the degree needs a booster: its uid keys the per-degree design band (see band_topology)
        where = draw(st.sampled_from(['booster', 'all']))
    if cls in ('CLS', 'W'):
        where = 'all'      # line fully placed by the user (three-band / wide-band models are not for auto-design)
    if cls == 'Lnodb':
        cls = 'L'
    if cls == 'CLauto':
        # untyped multiband booster: bands come from the per-degree design bands, models from auto-design
        els.append({'uid': f'booster {tag}', 'type': 'Multiband_amplifier', 'metadata': netgen._meta(tag)})
        cls, where = 'auto', 'none'
    if where == 'ila' and n == 1:
        where = 'booster'

    def variety():
        pool = SINGLE.get(cls) or MULTI[cls]
        return draw(st.sampled_from(pool))
    with_parts = draw(st.booleans())
    if where in ('booster', 'all'):
        els.append(_amp(f'booster {tag}', cls, variety(), with_parts, tag))
        placed = True
    for k in range(n):
        length = draw(st.sampled_from([80.0, 50.0, 100.0, 25.0, 65.5]))
        els.append({'uid': f'fiber {tag}.{k}', 'type': 'Fiber', 'type_variety': 'SSMF', 'metadata': netgen._meta(tag),
                    'params': {'length': length, 'length_units': 'km', 'loss_coef': draw(st.sampled_from([0.2, 0.22])),
                               'con_in': None, 'con_out': None, 'att_in': 0}})
        if k < n - 1:
            if where == 'all' or (where == 'ila' and not placed):
                els.append(_amp(f'amp {tag}.{k}', cls, variety(), with_parts, tag))
                placed = True
            elif draw(st.integers(0, 4)) == 0:
                els.append({'uid': f'fused {tag}.{k}', 'type': 'Fused', 'params': {'loss': 0.5}, 'metadata': netgen._meta(tag)})
    if where in ('preamp', 'all'):
        els.append(_amp(f'preamp {tag}', cls, variety(), with_parts, tag))
    return els


@st.composite
def band_topology(draw, classes, edges=None, n=(2, 4), extra_max=2, both_dirs_same=None, oneway=False):
    """ROADM mesh where each link direction has a band class drawn from `classes`.
    L / Lred degrees get a per-degree design band inside the L band on their ingress ROADM (the documented way to
    tell auto-design which band the degree works in); 'Lnodb' omits it (design then completes the OMS with C-band
    amplifiers: an OMS without any common band). 'CLauto' = untyped Multiband_amplifier booster + C+L per-degree
    design bands (auto-design picks the multiband models).
    Returns (topo_json, truth) with truth = {'n', 'links': [[a, b],...], 'classes': {'L<l>.<dir>': cls}}"""
    k, links = draw(netgen.graph(n, extra_max, False))
    elements, connections = [], []
    roadms = []
    for i in range(k):
        elements.append({'uid': f'trx R{i}', 'type': 'Transceiver', 'metadata': netgen._meta(f'R{i}')})
        r = {'uid': f'roadm R{i}', 'type': 'Roadm', 'metadata': netgen._meta(f'R{i}'), 'params': {}}
        roadms.append(r)
        elements.append(r)
        connections.append({'from_node': f'trx R{i}', 'to_node': f'roadm R{i}'})
        connections.append({'from_node': f'roadm R{i}', 'to_node': f'trx R{i}'})
    cls_of = {}
    oneway_links = []
    for lid, (a, b) in enumerate(links):
        c_ab = draw(st.sampled_from(classes))
        same = draw(st.integers(0, 3)) > 0 if both_dirs_same is None else both_dirs_same
        c_ba = c_ab if same else draw(st.sampled_from(classes))
        # a link beyond the spanning tree may be equipped in one direction only (truth['oneway'])
        single = oneway and lid >= k - 1 and draw(st.integers(0, 2)) == 0
        if single:
            oneway_links.append(lid)
        for src, dst, d, c in ((a, b, 'ab', c_ab), (b, a, 'ba', c_ba)):
            if single and d == 'ba':
                continue
            els = draw(chain(lid, d, c))
            cls_of[f'L{lid}.{d}'] = c
            if c in ('L', 'Lred') and edges is not None:
                lo, hi = edges[c]
                roadms[src]['params'].setdefault('per_degree_design_bands', {})[els[0]['uid']] = [
                    {'f_min': lo + 0.05e12, 'f_max': hi - 0.05e12, 'spacing': 50e9}]
            if c == 'CLS' and edges is not None:
                roadms[src]['params'].setdefault('per_degree_design_bands', {})[els[0]['uid']] = [
                    {'f_min': edges[b][0] + 0.1e12, 'f_max': edges[b][1] - 0.1e12, 'spacing': 50e9} for b in ('L', 'C', 'S')]
            if c == 'CLauto' and edges is not None:
                roadms[src]['params'].setdefault('per_degree_design_bands', {})[els[0]['uid']] = [
                    {'f_min': edges['L'][0] + 0.1e12, 'f_max': edges['L'][1] - 0.1e12, 'spacing': 50e9},
                    {'f_min': edges['C'][0] + 0.1e12, 'f_max': edges['C'][1] - 0.1e12, 'spacing': 50e9}]
            seq = [f'roadm R{src}'] + [e['uid'] for e in els] + [f'roadm R{dst}']
            elements.extend(els)
            for x, y in zip(seq[:-1], seq[1:]):
                connections.append({'from_node': x, 'to_node': y})
    topo = {'elements': elements, 'connections': connections}
    truth = {'n': k, 'links': [list(x) for x in links], 'classes': cls_of, 'oneway': oneway_links}
    return topo, truth
