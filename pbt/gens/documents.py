"""Grammar-based LEGACY-format gnpy input documents for C18 (DESIGN §3 C18).

Five kinds + amplifier advanced config: equipment, topology, services, spectrum, sim-params, edfa-config.
Base documents are valid by construction (built on pbt.gens.netgen); every numeric leaf is first quantised to the
fraction digits declared by its YANG leaf (pbt.oracles.yangdigits, read from the .yang files), then a few leaves are
moved by k * 10^-d (class 'a': at most the declared digits) or by k * 10^-(d+e), e in 1..3 (class 'b': excess digits).
Leaves that carry structural constraints (band edges, list keys, spacing vs baud rate ...) are never moved.
"""
import copy
from decimal import Decimal

from hypothesis import strategies as st

from pbt.gens import netgen
from pbt.oracles.yangdigits import declared_digits
from pbt.oracles.docdiff import fraction_digits_of, is_number, KEYED

# ----------------------------------------------------------------------------------------- numeric leaves


def walk_numbers(doc, path=()):
    """yield (path, value) for every int/float leaf (bool excluded)"""
    if isinstance(doc, dict):
        for k, v in doc.items():
            yield from walk_numbers(v, path + (k,))
    elif isinstance(doc, list):
        for i, v in enumerate(doc):
            yield from walk_numbers(v, path + (i,))
    elif is_number(doc):
        yield path, doc


def get_path(doc, path):
    for p in path:
        doc = doc[p]
    return doc


def set_path(doc, path, value):
    for p in path[:-1]:
        doc = doc[p]
    doc[path[-1]] = value


def quantize(doc, kind):
    """round every decimal leaf to its declared fraction digits (in place); returns doc"""
    for path, v in list(walk_numbers(doc)):
        d = declared_digits(kind, path)
        if d is not None and d >= 1 and fraction_digits_of(v) > d:
            set_path(doc, path, float(round(Decimal(repr(float(v))), d)))
    return doc


def excess_leaves(doc, kind):
    """paths whose value carries more fraction digits than declared"""
    out = []
    for path, v in walk_numbers(doc):
        d = declared_digits(kind, path)
        if d is not None and d >= 1 and fraction_digits_of(v) > d:
            out.append(path)
    return out


# keys never moved: list keys, band edges, values tied to each other by loader checks
FROZEN = {
    'equipment': {'f_min', 'f_max', 'min', 'max', 'lower-frequency', 'upper-frequency', 'spacing', 'baud_rate',
                  'min_spacing', 'bit_rate', 'gain_min', 'gain_flatmax', 'frequency_offset', 'max_length',
                  'roadm-path-impairments-id', 'cost'},
    'topology': {'f_min', 'f_max', 'frequency', 'frequency_offset', 'reference_frequency', 'ref_frequency',
                 'ref_wavelength', 'position', 'length', 'spacing', 'number-of-channels', 'impairment_id'},
    'services': {'spacing', 'path_bandwidth', 'N', 'M', 'index', 'max-nb-of-channel'},
    'spectrum': {'f_min', 'f_max', 'slot_width', 'baud_rate'},
    'sim-params': {'order', 'computed_channels', 'computed_number_of_channels'},
    'edfa-config': {'f_min', 'f_max'},
}


def apply_jitter(doc, kind, moves, frozen_paths=()):
    """moves: list of [leaf_selector, k, e]; leaf_selector indexes (modulo) the movable leaves in document order.
    Pure function of (doc, moves): used both inside strategies and to re-create seed-file cases at run time."""
    leaves = []
    for path, v in walk_numbers(doc):
        names = [p for p in path if isinstance(p, str)]
        if not names or names[-1] in FROZEN[kind]:
            continue
        if any(path[:len(fp)] == tuple(fp) for fp in frozen_paths):
            continue
        d = declared_digits(kind, path)
        if d is None or d < 1:
            continue
        leaves.append((path, d))
    if not leaves:
        return doc
    expanded = []
    for sel, k, e in moves:
        if sel == 'all':
            # dense variant: every movable leaf, multiplier from a small LCG seeded by k
            x = (k % 2147483647) or 1
            for i in range(len(leaves)):
                x = (x * 48271) % 2147483647
                kk = (x % 15) - 7
                expanded.append((i, kk if kk else 3, e))
        else:
            expanded.append((sel, k, e))
    for sel, k, e in expanded:
        path, d = leaves[sel % len(leaves)]
        v = get_path(doc, path)
        delta = k * Decimal(10) ** -(d + e)
        new = Decimal(repr(float(v))) + delta
        if v >= 0 and new < 0:
            new = Decimal(repr(float(v))) - delta
        set_path(doc, path, float(new))
    return doc


def moves(max_moves=6, excess=False, min_moves=0):
    k = st.sampled_from([-7, -3, -2, -1, 1, 2, 3, 5])
    e = st.integers(1, 3) if excess else st.just(0)
    return st.lists(st.tuples(st.integers(0, 10 ** 6), k, e).map(list), min_size=min_moves, max_size=max_moves)


def keyed_entries(doc, path=(), name=None):
    """yield (list name, entry dict, key names) for every entry of a YANG-keyed list"""
    if isinstance(doc, dict):
        for k, v in doc.items():
            yield from keyed_entries(v, path + (k,), k if not (path and path[-1] == 'per_degree_design_bands')
                                     else 'design_bands')
    elif isinstance(doc, list):
        keys = KEYED.get(name)
        for i, v in enumerate(doc):
            if keys and isinstance(v, dict) and all(k in v for k in keys):
                yield name, v, keys
            yield from keyed_entries(v, path + (i,), name)


def keys_first(doc):
    """canonical member order: the key leaves of every keyed-list entry come first (as in all shipped files)"""
    for _, entry, keys in list(keyed_entries(doc)):
        items = [(k, entry[k]) for k in keys] + [(k, v) for k, v in entry.items() if k not in keys]
        entry.clear()
        entry.update(items)
    return doc


def _ident(v):
    return float(v) if is_number(v) else v


def apply_key_last(doc, spec):
    """write the key member(s) of the entry identified by spec = {'list': name, 'key': [values]} last
    (an entry made of key members only gets them in reverse order)"""
    for name, entry, keys in keyed_entries(doc):
        if name == spec['list'] and [_ident(entry[k]) for k in keys] == [_ident(v) for v in spec['key']]:
            rest = [(k, v) for k, v in entry.items() if k not in keys]
            ks = [(k, entry[k]) for k in keys]
            items = rest + ks if rest else list(reversed(ks))
            entry.clear()
            entry.update(items)
            return True
    return False


def canonical(case_doc, key_last=None):
    """what a check runs on: fresh copy, canonical member order (independent of how the case was serialised, e.g. a
    replay file written with sorted keys), then the recorded key-last entry if the case is of that tagged class"""
    doc = keys_first(copy.deepcopy(case_doc))
    if key_last:
        apply_key_last(doc, key_last)
    return doc


@st.composite
def finished(draw, doc, kind, frozen_paths=(), feats=None, extra=None):
    """quantise, jitter, canonical member order (key leaves of keyed-list entries first). returns (doc, cls)"""
    quantize(doc, kind)
    cls = draw(st.sampled_from(['a', 'a', 'b']))
    if draw(st.sampled_from([False, False, True])):
        mv = [['all', draw(st.integers(1, 10 ** 6)), 0]]
    else:
        mv = draw(moves(6, excess=False))
    if cls == 'b':
        if draw(st.sampled_from([False, False, True])):
            mv.append(['all', draw(st.integers(1, 10 ** 6)), draw(st.integers(1, 3))])
        else:
            mv += draw(moves(4, excess=True, min_moves=1))
    apply_jitter(doc, kind, mv, frozen_paths)
    keys_first(doc)
    return doc, ('b' if excess_leaves(doc, kind) else 'a')


# ----------------------------------------------------------------------------------------- equipment

MB_C = (191.25e12, 196.15e12)
MB_L = (186.5e12, 190.1e12)


@st.composite
def raman_efficiency(draw):
    n = draw(st.integers(2, 6))
    return {'cr': [0.0] + [round(draw(st.floats(1e-5, 5e-4)), 9) for _ in range(n - 1)],
            'frequency_offset': [i * 0.5e12 for i in range(n)]}


@st.composite
def equipment_doc(draw, multiband=None, aliases=None, for_network=False):
    """Legacy equipment library. for_network=True keeps to what generated topologies need (single SI/Span)."""
    eq = draw(netgen.equipment(raman_fiber=True))
    for f in eq['Fiber']:
        f.pop('dispersion_slope', None)          # only an element parameter (not read by the library loader)
    feats = set()
    # --- Edfa
    for e in eq['Edfa']:
        if e['type_def'] in ('variable_gain', 'fixed_gain') and 'f_min' not in e and draw(st.integers(0, 3)) == 0:
            e['f_min'], e['f_max'] = draw(st.sampled_from([(191.2e12, 196.2e12), (191.275e12, 196.125e12),
                                                            (191.0e12, 196.5e12)]))
            feats.add('edfa-band')
        if e['type_def'] == 'variable_gain' and draw(st.integers(0, 5)) == 0:
            e['default_config_from_json'] = 'std_medium_gain_advanced_config.json'
            feats.add('default-config')
        if (aliases if aliases is not None else draw(st.integers(0, 2)) == 0):
            e['other_name'] = [f'{e["type_variety"]}_alt{j}' for j in range(draw(st.integers(1, 3)))]
            feats.add('edfa-alias')
    mb = draw(st.booleans()) if multiband is None else multiband
    if mb:
        c = draw(netgen.variable_gain_entry('MBC', band=MB_C, design=True))
        lb = draw(netgen.variable_gain_entry('MBL', band=MB_L, design=True))
        eq['Edfa'] += [c, lb, {'type_variety': 'MB', 'type_def': 'multi_band', 'amplifiers': ['MBC', 'MBL'],
                               'allowed_for_design': draw(st.booleans())}]
        feats.add('multi_band')
    # --- RamanFiber: SSMF (shared with Fiber, must agree) + a private one with its own Raman efficiency
    rf = {'type_variety': 'RSMF', 'dispersion': 1.8e-05, 'effective_area': 80e-12, 'pmd_coef': 1.1e-15}
    if draw(st.booleans()):
        rf['raman_efficiency'] = draw(raman_efficiency())
        feats.add('raman_efficiency')
    if draw(st.booleans()):
        rf['gamma'] = 0.0012
    eq['RamanFiber'].append(rf)
    # --- several Span / SI entries (the library keeps the last type-less Span, SI[0] becomes 'default')
    if not for_network:
        if draw(st.booleans()):
            eq['Span'].append(draw(netgen.span_entry()))
            feats.add('span2')
        if draw(st.booleans()):
            si2 = draw(netgen.si_entry(band=(186.55e12, 190.05e12), name='LBAND'))
            si2['power_range_db'] = [draw(st.sampled_from([0, -1, -2])), draw(st.sampled_from([0, 1, 2])),
                                     draw(st.sampled_from([0.5, 1, 0.25]))]
            eq['SI'].append(si2)
            feats.add('si2')
        eq['SI'][0]['power_range_db'] = [draw(st.sampled_from([0, 0, -1, -3])), draw(st.sampled_from([0, 0, 1, 2])),
                                         draw(st.sampled_from([0.5, 1]))]
    # --- Transceiver aliases (type level and mode level)
    for t in eq['Transceiver']:
        if (aliases if aliases is not None else draw(st.integers(0, 1)) == 0):
            t['other_name'] = [f'{t["type_variety"]}_alt{j}' for j in range(draw(st.integers(1, 3)))]
            feats.add('trx-alias')
        for m in t['mode']:
            if draw(st.integers(0, 3)) == 0:
                m['other_name'] = [f'{m["format"]}_alt{j}' for j in range(draw(st.integers(1, 2)))]
                feats.add('mode-alias')
            if draw(st.integers(0, 4)) == 0:
                m['equalization_offset_db'] = draw(st.sampled_from([0, 1.0, -1.5, 2.25]))
                feats.add('equalization_offset')
            if draw(st.integers(0, 5)) == 0:
                m['roll_off'] = None
                feats.add('roll_off-null')
            if m.get('penalties'):
                feats.add('penalties')
    if len(eq['Roadm']) > 1:
        feats.add('roadm-several')
    if any('roadm-path-impairments' in r for r in eq['Roadm']):
        feats.add('roadm-path-impairments')
    if any(e['type_def'] == 'dual_stage' for e in eq['Edfa']):
        feats.add('dual_stage')
    if any(e['type_def'].startswith('openroadm') for e in eq['Edfa']):
        feats.add('openroadm')
    # shared Fiber/RamanFiber entries must keep agreeing; nf_min/nf_max feed a fitted model with hard bounds
    frozen = [('RamanFiber', 0)] + [('Fiber', i) for i, f in enumerate(eq['Fiber']) if f['type_variety'] == 'SSMF']
    frozen += [('Edfa', i, k) for i, e in enumerate(eq['Edfa']) for k in ('nf_min', 'nf_max')]
    extra = {}
    eq, cls = draw(finished(eq, 'equipment', frozen, feats=None if for_network else feats, extra=extra))
    return dict({'doc': eq, 'cls': cls, 'features': sorted(feats)}, **extra)


# ----------------------------------------------------------------------------------------- topology

def _bands_for(eq, mb):
    si = eq['SI'][0]
    c = {'f_min': si['f_min'], 'f_max': si['f_max']}
    if mb:
        return [c, {'f_min': 186.55e12, 'f_max': 190.05e12}]
    return [c]


@st.composite
def enrich_topology(draw, topo, eq, feats):
    """add the documented optional fields netgen does not produce"""
    els = topo['elements']
    conns = topo['connections']
    mb = any(e['type_variety'] == 'MB' for e in eq['Edfa'])
    r2 = next((r for r in eq['Roadm'] if 'roadm-path-impairments' in r), None)
    use_dpf = draw(st.sampled_from([False] * 7 + [True]))     # rarer: one fibre of one document in eight
    for el in els:
        loc = el.get('metadata', {}).get('location')
        if loc is not None:
            w = draw(st.integers(0, 5))
            if w == 0:
                loc['city'] = None
                feats.add('city-null')
            elif w == 1:
                loc['region'] = None
                feats.add('region-null')
            elif w == 2:
                loc['latitude'] = draw(st.floats(-80, 80).map(lambda x: round(x, 6)))
                loc['longitude'] = draw(st.floats(-170, 170).map(lambda x: round(x, 4)))
                feats.add('coordinates')
            elif w == 3:
                del el['metadata']
                feats.add('no-metadata')
        if el['type'] in ('Fiber', 'RamanFiber'):
            p = el['params']
            w = draw(st.integers(0, 9))
            if use_dpf and 'dispersion_per_frequency' not in feats:
                w = 5
            if w == 0:
                p['raman_coefficient'] = {'g0': [0.0, round(draw(st.floats(1e-5, 2e-4)), 14),
                                                 round(draw(st.floats(2e-4, 5e-4)), 14)],
                                          'frequency_offset': [0.0, 0.5e12, 1.0e12],
                                          'reference_frequency': 206184634112792.0 if draw(st.booleans()) else 206.2e12}
                feats.add('raman_coefficient')
            elif w == 1:
                p['dispersion'] = draw(st.sampled_from([1.67e-05, 2.0e-05, 0.4e-05]))
                p['dispersion_slope'] = draw(st.sampled_from([59.0, 61.3, 45.25]))
                feats.add('dispersion_slope')
            elif w == 2:
                p['ref_wavelength'] = draw(st.sampled_from([1550e-9, 1545.5e-9]))
                feats.add('ref_wavelength')
            elif w == 3:
                p['ref_frequency'] = draw(st.sampled_from([193.5e12, 193414489032258.0]))
                p['gamma'] = draw(st.sampled_from([0.00127, 0.0015, 0.00104321]))
                feats.add('ref_frequency')
            elif w == 4:
                p['effective_area'] = draw(st.sampled_from([80e-12, 72.5e-12, 125e-12]))
                feats.add('effective_area')
            elif w == 5 and use_dpf and 'dispersion_per_frequency' not in feats:
                p['dispersion_per_frequency'] = {'value': [1.6e-05, 1.7e-05, 1.81e-05],
                                                 'frequency': [191e12, 193.5e12, 196e12]}
                feats.add('dispersion_per_frequency')
            if isinstance(p.get('loss_coef'), dict):
                feats.add('loss_coef-per-frequency')
            if 'lumped_losses' in p:
                feats.add('lumped_losses')
            if p.get('con_in', 0) is None:
                feats.add('connector-null')
            elif 'con_in' in p and draw(st.integers(0, 7)) == 0:
                del p['con_in']
                del p['att_in']
                feats.add('connector-omitted')
            if el['type'] == 'RamanFiber':
                feats.add('RamanFiber')
                if draw(st.booleans()):
                    el['operational']['raman_pumps'][0]['propagation_direction'] = 'coprop'
                    el['operational']['raman_pumps'][0]['power'] = draw(st.sampled_from([0.05, 0.123456789, 0.2244]))
                    el['operational']['temperature'] = draw(st.sampled_from([283, 298.15, 300]))
        elif el['type'] == 'Fused':
            feats.add('Fused')
            w = draw(st.integers(0, 3))
            if w == 0:
                del el['params']
                feats.add('fused-no-params')
            elif w == 1:
                el['params'] = {'loss': None}
                feats.add('fused-loss-null')
        elif el['type'] == 'Edfa':
            op = el.get('operational', {})
            if any(v is None for v in op.values()):
                feats.add('edfa-operational-null')
            if draw(st.integers(0, 9)) == 0:
                del el['operational']
                feats.add('edfa-no-operational')
        elif el['type'] == 'Roadm':
            p = el['params']
            degs = [c['to_node'] for c in conns if c['from_node'] == el['uid'] and not c['to_node'].startswith('trx')]
            ins = [c['from_node'] for c in conns if c['to_node'] == el['uid'] and not c['from_node'].startswith('trx')]
            if len(degs) >= 2 and draw(st.integers(0, 3)) == 0:
                # a ROADM whose egress degrees use different equalisation kinds (elements.Roadm keeps one table per kind)
                d1, d2 = draw(st.permutations(degs))[:2]
                k1, k2 = draw(st.permutations(['per_degree_pch_out_db', 'per_degree_psd_out_mWperGHz',
                                               'per_degree_psd_out_mWperSlotWidth']))[:2]
                vals = {'per_degree_pch_out_db': [-20, -18.5, -22, 0, 0.0], 'per_degree_psd_out_mWperGHz': [3.125e-4, 2.5e-4],
                        'per_degree_psd_out_mWperSlotWidth': [2e-4, 1.5e-4]}
                for d, k in ((d1, k1), (d2, k2)):
                    for kk in vals:
                        p.get(kk, {}).pop(d, None)
                    p.setdefault(k, {})[d] = draw(st.sampled_from(vals[k]))
                for kk in vals:
                    if kk in p and not p[kk]:
                        del p[kk]
            for k in ('per_degree_pch_out_db', 'per_degree_psd_out_mWperGHz', 'per_degree_psd_out_mWperSlotWidth'):
                if k in p:
                    feats.add(k)
            if sum(k in p for k in ('per_degree_pch_out_db', 'per_degree_psd_out_mWperGHz',
                                    'per_degree_psd_out_mWperSlotWidth')) > 1:
                feats.add('per-degree-mixed-kinds')
            w = draw(st.integers(0, 5))
            if w == 0:
                p['design_bands'] = copy.deepcopy(_bands_for(eq, mb and draw(st.booleans())))
                if draw(st.booleans()):
                    for b in p['design_bands']:
                        b['spacing'] = draw(st.sampled_from([50e9, 62.5e9, 75e9]))
                    feats.add('design_bands-spacing')
                feats.add('design_bands')
            elif w == 1 and degs:
                chosen = draw(st.lists(st.sampled_from(degs), min_size=1, max_size=len(degs), unique=True))
                p['per_degree_design_bands'] = {d: copy.deepcopy(_bands_for(eq, mb and draw(st.booleans())))
                                                for d in chosen}
                feats.add('per_degree_design_bands')
                if draw(st.booleans()):
                    # the optional spacing of a band (design on another grid than the SI one)
                    for bands in p['per_degree_design_bands'].values():
                        for b in bands:
                            b['spacing'] = draw(st.sampled_from([37.5e9, 62.5e9, 75e9]))
                    feats.add('per_degree_design_bands-spacing')
                if len(chosen) > 1:
                    feats.add('per_degree_design_bands-several')
            if el.get('type_variety') == 'r2' and r2 and degs and ins and draw(st.booleans()):
                p['per_degree_impairments'] = [{'from_degree': ins[0], 'to_degree': degs[-1],
                                                'impairment_id': draw(st.sampled_from([0, 3]))}]
                if draw(st.booleans()):
                    p['per_degree_impairments'].append({'from_degree': el['uid'].replace('roadm', 'trx'),
                                                        'to_degree': degs[0], 'impairment_id': 1})
                feats.add('per_degree_impairments')
            if draw(st.integers(0, 5)) == 0:
                amp_names = netgen.covering(eq['Edfa'], (eq['SI'][0]['f_min'], eq['SI'][0]['f_max']))
                p['restrictions'] = {'preamp_variety_list': amp_names[:1], 'booster_variety_list': amp_names[:2]}
                feats.add('roadm-restrictions')
            if not p and draw(st.booleans()):
                del el['params']
    # a Multiband_amplifier element spliced in front of the first fibre of some chain
    if mb and draw(st.booleans()):
        fibres = [e for e in els if e['type'] in ('Fiber', 'RamanFiber')]
        f = fibres[draw(st.integers(0, len(fibres) - 1))]
        uid = 'mbamp ' + f['uid']
        style = draw(st.sampled_from(['full', 'typed', 'bare']))
        el = {'uid': uid, 'type': 'Multiband_amplifier', 'metadata': {'location': {'latitude': 0, 'longitude': 0,
                                                                                   'city': 'x', 'region': ''}}}
        if style != 'bare':
            el['type_variety'] = 'MB'
        if style == 'full':
            el['amplifiers'] = [
                {'type_variety': 'MBC', 'operational': {'gain_target': draw(st.sampled_from([20, 22.55, 18.123456])),
                                                        'delta_p': draw(st.sampled_from([None, 0.9, 0])),
                                                        'out_voa': draw(st.sampled_from([None, 3.0])),
                                                        'tilt_target': draw(st.sampled_from([0.0, -0.5])),
                                                        'in_voa': draw(st.sampled_from([0.0, 1.0]))}},
                {'type_variety': 'MBL', 'operational': {'gain_target': 21, 'delta_p': 3.0, 'out_voa': 3.0,
                                                        'tilt_target': 0.0}}]
        for c in conns:
            if c['to_node'] == f['uid']:
                c['to_node'] = uid
        conns.append({'from_node': uid, 'to_node': f['uid']})
        els.append(el)
        feats.add('Multiband_amplifier:' + style)
    if draw(st.integers(0, 3)) == 0:
        topo['network_name'] = draw(st.sampled_from(['net', 'Example Network - µ', 'n 1']))
        feats.add('network_name')
    return topo


@st.composite
def topology_case(draw, n=(2, 4), for_propagation=False):
    """equipment (class a, loadable) + topology document"""
    mb = False if for_propagation else draw(st.booleans())
    eqc = draw(equipment_doc(multiband=mb, aliases=False, for_network=True))
    eq = quantize(eqc['doc'], 'equipment')       # the library itself is not the document under test here
    topo, truth = draw(netgen.topology(eq, n=n, extra_max=1, chain_kw={'raman': not for_propagation, 'spans': (1, 2)}))
    feats = set()
    for el in topo['elements']:
        el.pop('variety_list', None)       # element-level key read by elements.Edfa but documented nowhere: not used
    if not for_propagation:
        topo = draw(enrich_topology(topo, eq, feats))
    for el in topo['elements']:
        p = el.get('params') or {}
        for k in ('per_degree_pch_out_db', 'per_degree_psd_out_mWperGHz', 'per_degree_psd_out_mWperSlotWidth'):
            if k in p:
                feats.add(k)
        if isinstance(p.get('loss_coef'), dict):
            feats.add('loss_coef-per-frequency')
        if 'lumped_losses' in p:
            feats.add('lumped_losses')
    extra = {}
    topo, cls = draw(finished(topo, 'topology', feats=None if for_propagation else feats, extra=extra))
    return dict({'eq': eq, 'doc': topo, 'cls': cls, 'features': sorted(feats), 'n': truth['n']}, **extra)


# ----------------------------------------------------------------------------------------- services

@st.composite
def services_case(draw):
    eqc = draw(equipment_doc(multiband=False, for_network=True))
    eq = quantize(eqc['doc'], 'equipment')
    n_nodes = draw(st.integers(2, 5))
    nodes = [f'trx R{i}' for i in range(n_nodes)]
    feats = set()
    reqs = []
    trx_names = []
    for t in eq['Transceiver']:
        trx_names.append((t['type_variety'], t))
        for o in t.get('other_name', []):
            trx_names.append((o, t))
    for rid in range(draw(st.integers(1, 5))):
        name, t = draw(st.sampled_from(trx_names))
        if name != t['type_variety']:
            feats.add('trx-alias-used')
        mode = draw(st.sampled_from(t['mode']))
        fmt = draw(st.sampled_from([mode['format']] + mode.get('other_name', [])))
        spacing = max(m['min_spacing'] for m in t['mode'])
        spacing = draw(st.sampled_from([spacing, spacing + 12.5e9, 100e9]))
        bw = draw(st.sampled_from([100e9, 200e9, 400e9, 150e9]))
        te = {'technology': 'flexi-grid', 'trx_type': name, 'spacing': spacing, 'path_bandwidth': bw}
        w = draw(st.sampled_from(['mode', 'mode', 'null', 'absent']))
        if w == 'mode':
            te['trx_mode'] = fmt
            if fmt != mode['format']:
                feats.add('mode-alias-used')
        elif w == 'null':
            te['trx_mode'] = None
            feats.add('trx_mode-null')
        else:
            feats.add('trx_mode-absent')
        per_m = -(-int(spacing) // int(12.5e9))
        nreq = -(-int(bw) // int(mode['bit_rate'])) if w == 'mode' else -(-int(bw) // int(100e9))
        # a slot with M but no N next to a selected mode is not loadable (requests_from_json computes the slot range of
        # the first entry as soon as every M is known): only generated for requests that leave the mode open
        s = draw(st.sampled_from(['absent', 'nulls', 'nm', 'multi', 'n-only', 'mixed'] + (['m-only'] if w != 'mode' else [])))
        big = per_m * nreq + draw(st.integers(0, 3))
        if s == 'nulls':
            te['effective-freq-slot'] = [{'N': None, 'M': None}]
        elif s == 'nm':
            te['effective-freq-slot'] = [{'N': draw(st.integers(-280, 280)), 'M': big}]
        elif s == 'm-only':
            te['effective-freq-slot'] = [{'N': None, 'M': big}]
        elif s == 'n-only':
            te['effective-freq-slot'] = [{'N': draw(st.integers(-280, 280)), 'M': None}]
        elif s == 'multi':
            te['effective-freq-slot'] = [{'N': -200, 'M': big}, {'N': 0, 'M': per_m}, {'N': 200, 'M': per_m}]
            if draw(st.booleans()):
                te['effective-freq-slot'].reverse()
        elif s == 'mixed':
            te['effective-freq-slot'] = [{'N': -100, 'M': big}, {'N': None, 'M': None}]
        feats.add('slot:' + s)
        for key, vals in (('max-nb-of-channel', [None, 'absent', 1, 20, 40]),
                          ('output-power', [None, 'absent', 0.001, 0.0012589254, 0.00079433]),
                          ('tx_power', ['absent', 'absent', None, 0.001, 0.00063])):
            v = draw(st.sampled_from(vals))
            if v != 'absent':
                te[key] = v
                feats.add(f'{key}:' + ('null' if v is None else 'value'))
        src, dst = draw(st.lists(st.sampled_from(nodes), min_size=2, max_size=2, unique=True))
        r = {'request-id': str(rid) if draw(st.booleans()) else f'req-{rid}', 'source': src, 'destination': dst,
             'src-tp-id': src, 'dst-tp-id': dst, 'bidirectional': draw(st.booleans()),
             'path-constraints': {'te-bandwidth': te}}
        if draw(st.booleans()):
            hops = draw(st.lists(st.sampled_from([f'roadm R{i}' for i in range(n_nodes)]), min_size=1, max_size=3,
                                 unique=True))
            objs = [{'explicit-route-usage': 'route-include-ero', 'index': i,
                     'num-unnum-hop': {'node-id': h, 'link-tp-id': 'link-tp-id is not used',
                                       'hop-type': draw(st.sampled_from(['LOOSE', 'STRICT']))}}
                    for i, h in enumerate(hops)]
            if draw(st.booleans()):
                objs.reverse()
                feats.add('route-unordered')
            r['explicit-route-objects'] = {'route-object-include-exclude': objs}
            feats.add('explicit-route')
        reqs.append(r)
    doc = {'path-request': reqs}
    if len(reqs) >= 2 and draw(st.booleans()):
        ids = [r['request-id'] for r in reqs]
        groups = []
        for g in range(draw(st.integers(1, 2))):
            members = draw(st.lists(st.sampled_from(ids), min_size=2, max_size=min(3, len(ids)), unique=True))
            groups.append({'synchronization-id': f's{g}', 'svec': {'relaxable': False, 'disjointness': 'node link',
                                                                  'request-id-number': members}})
        doc['synchronization'] = groups
        feats.add('synchronization')
    extra = {}
    doc, cls = draw(finished(doc, 'services', feats=feats, extra=extra))
    return dict({'eq': eq, 'doc': doc, 'cls': cls, 'features': sorted(feats)}, **extra)


# ----------------------------------------------------------------------------------------- small documents

@st.composite
def spectrum_case(draw):
    parts = []
    f = draw(st.sampled_from([191.4e12, 191.35e12, 192.0e12]))
    feats = set()
    for i in range(draw(st.integers(1, 4))):
        slot = draw(st.sampled_from([37.5e9, 50e9, 75e9, 100e9, 62.5e9]))
        baud = draw(st.sampled_from([b for b in (28e9, 32e9, 44.5e9, 64e9, 90e9) if b <= slot]))
        nch = draw(st.integers(1, 8))
        p = {'f_min': f, 'f_max': f + (nch - 1) * slot, 'baud_rate': baud, 'slot_width': slot,
             'roll_off': draw(st.sampled_from([0.15, 0.1, 0.05]))}
        if draw(st.booleans()):
            p['f_max'] += draw(st.sampled_from([0.0, slot / 4, 1.0e9]))      # f_max need not be on the grid
        for key, vals in (('delta_pdb', [0, 1, -1.5, 2.25]), ('tx_osnr', [40, 45, 38.5]),
                          ('tx_power_dbm', [0, -7, 1.5]), ('label', ['mode_1', f'{i}-x', 'µ'])):
            if draw(st.booleans()):
                p[key] = draw(st.sampled_from(vals))
                feats.add(key)
        parts.append(p)
        f = f + nch * slot + draw(st.sampled_from([100e9, 150e9, 212.5e9]))
    if draw(st.booleans()):
        parts.reverse()
        feats.add('unordered')
    extra = {}
    doc, cls = draw(finished({'spectrum': parts}, 'spectrum', feats=feats, extra=extra))
    return dict({'doc': doc, 'cls': cls, 'features': sorted(feats)}, **extra)


@st.composite
def sim_params_case(draw):
    feats = set()
    raman = {'flag': draw(st.booleans())}
    for key, vals in (('order', [1, 2]), ('method', ['perturbative', 'numerical']),
                      ('result_spatial_resolution', [10e3, 5000.5, 123.456]),
                      ('solver_spatial_resolution', [50, 10e3, 20.25])):
        if draw(st.booleans()):
            raman[key] = draw(st.sampled_from(vals))
            feats.add(key)
    nli = {'method': draw(st.sampled_from(['gn_model_analytic', 'ggn_spectrally_separated', 'ggn_approx']))}
    for key, vals in (('dispersion_tolerance', [1, 4, 2.5]), ('phase_shift_tolerance', [0.1, 0.2, 1])):
        if draw(st.booleans()):
            nli[key] = draw(st.sampled_from(vals))
            feats.add(key)
    w = draw(st.sampled_from(['none', 'channels', 'number']))
    if w == 'channels':
        nli['computed_channels'] = sorted(draw(st.lists(st.integers(1, 96), min_size=1, max_size=6, unique=True)))
    elif w == 'number':
        nli['computed_number_of_channels'] = draw(st.integers(1, 20))
    feats.add('nli:' + w)
    doc = {'raman_params': raman, 'nli_params': nli}
    if draw(st.integers(0, 5)) == 0:
        del doc['raman_params']
        feats.add('nli-only')
    doc, cls = draw(finished(doc, 'sim-params'))
    return {'doc': doc, 'cls': cls, 'features': sorted(feats)}


@st.composite
def edfa_config_case(draw):
    n = draw(st.integers(2, 12))

    def vec(lo, hi, digits):
        return [round(draw(st.floats(lo, hi)), digits) for _ in range(n)]
    doc = {'f_min': draw(st.sampled_from([191.275e12, 191.35e12, 186.5e12])),
           'nf_ripple': vec(-0.4, 0.4, draw(st.sampled_from([3, 16]))),
           'gain_ripple': vec(-0.3, 0.3, draw(st.sampled_from([4, 16]))),
           'dgt': vec(1.0, 3.0, draw(st.sampled_from([5, 15])))}
    doc['f_max'] = doc['f_min'] + draw(st.sampled_from([4.85e12, 4.75e12, 3.6e12]))
    if draw(st.integers(0, 4)) != 0:
        doc['nf_fit_coeff'] = [draw(st.sampled_from([0.0, 1.0e-04, 0.000168241])), draw(st.sampled_from([0.0, 0.0107627])),
                               draw(st.sampled_from([-0.5, -0.390566])), draw(st.sampled_from([6.0, 9.2456]))]
    feats = ['nf_fit_coeff'] if 'nf_fit_coeff' in doc else []
    if any(abs(x) < 1e-4 and x != 0 for k in ('nf_ripple', 'gain_ripple') for x in doc[k]):
        feats.append('tiny-value')
    doc, cls = draw(finished(doc, 'edfa-config'))
    return {'doc': doc, 'cls': cls, 'features': feats}


# ----------------------------------------------------------------------------------------- shipped files as seeds

SEEDS = {
    'equipment': ['gnpy/example-data/eqpt_config.json', 'gnpy/example-data/eqpt_config_multiband.json',
                  'gnpy/example-data/eqpt_config_openroadm_ver4.json', 'gnpy/example-data/eqpt_config_openroadm_ver5.json',
                  'gnpy/example-data/extra_eqpt_config.json', 'tests/data/eqpt_config.json',
                  'tests/data/eqpt_config_multiband.json', 'tests/data/eqpt_config_psd.json',
                  'tests/data/eqpt_config_psw.json', 'tests/data/eqpt_config_sweep.json'],
    'topology': ['gnpy/example-data/edfa_example_network.json', 'gnpy/example-data/raman_edfa_example_network.json',
                 'gnpy/example-data/multiband_example_network.json', 'gnpy/example-data/meshTopologyExampleV2.json',
                 'tests/data/LinkforTest.json',
                 'tests/data/perdegreemeshTopologyExampleV2_expected.json', 'tests/data/testTopology_expected.json',
                 'tests/data/twohops_roadm_power_test.json', 'tests/data/test_network.json',
                 'tests/data/convert/edfa_example_network.json'],
    'services': ['gnpy/example-data/meshTopologyExampleV2_services.json', 'gnpy/example-data/service_pluggable.json',
                 'tests/data/testTopology_testservices.json', 'tests/data/testService_services_expected.json',
                 'tests/data/CORONET_services.json'],
    'spectrum': ['gnpy/example-data/initial_spectrum1.json', 'gnpy/example-data/initial_spectrum2.json',
                 'gnpy/example-data/multiband_spectrum.json'],
    'sim-params': ['gnpy/example-data/sim_params.json', 'tests/data/sim_params.json'],
    'edfa-config': ['gnpy/example-data/std_medium_gain_advanced_config.json', 'gnpy/example-data/Juniper-BoosterHG.json',
                    'tests/data/copy_default_edfa_config.json', 'tests/data/user_edfa_config.json'],
}


@st.composite
def seed_case(draw):
    kind = draw(st.sampled_from(sorted(SEEDS)))
    f = draw(st.sampled_from(SEEDS[kind]))
    cls = draw(st.sampled_from(['plain', 'a', 'b']))
    mv = [] if cls == 'plain' else draw(moves(5, excess=False, min_moves=1))
    if cls == 'b':
        mv += draw(moves(3, excess=True, min_moves=1))
    return {'kind': kind, 'file': f, 'moves': mv}


# ----------------------------------------------------------------------------------------- member order of keyed entries

@st.composite
def key_order_case(draw):
    """a valid document of one of the four kinds that own keyed lists + one keyed-list entry whose key member(s)
    are to be written last (JSON objects are unordered; every legacy loader accepts any member order)"""
    kind = draw(st.sampled_from(['equipment', 'topology', 'services', 'spectrum']))
    if kind == 'equipment':
        c = draw(equipment_doc(multiband=False))
    elif kind == 'topology':
        c = draw(topology_case(n=(2, 2)))
        # fields with a recorded conversion defect of their own would hide the member-order outcome
        for el in c['doc']['elements']:
            (el.get('params') or {}).pop('dispersion_per_frequency', None)
    elif kind == 'services':
        c = draw(services_case())
    else:
        c = draw(spectrum_case())
    quantize(c['doc'], kind)
    entries = list(keyed_entries(c['doc']))
    names = sorted({n for n, _, _ in entries})
    handled = [n for n in names if n in ('lumped_losses', 'raman_pumps', 'route-object-include-exclude')]
    # the three lists the converters re-order themselves are the ones expected to pass: half of the draws when present
    name = draw(st.sampled_from(handled)) if handled and draw(st.booleans()) else draw(st.sampled_from(names))
    cand = [(e, k) for n, e, k in entries if n == name]
    entry, keys = cand[draw(st.integers(0, len(cand) - 1))]
    return {'kind': kind, 'doc': c['doc'], 'eq': c.get('eq'), 'cls': 'a', 'features': [],
            'key_last': {'list': name, 'key': [entry[k] for k in keys]}}
