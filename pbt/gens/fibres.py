"""Fibre parameter generators for the element-level checks (C03, C05): a *fibre case* is the JSON dict handed to
`Fiber(uid=..., type_variety='x', params=<dict>)`.  Everything is built by construction for a given spectrum
band [f_lo, f_hi] (Hz): per-frequency tables always span the band, a dispersion slope never lets D(lambda)
change sign inside the band, lumped losses sit at distinct interior positions.
"""
import math
from hypothesis import strategies as st

C = 299792458.0


def _r(x, n=9):
    """round to n significant digits (compact JSON, still arbitrary values)"""
    if x == 0:
        return 0.0
    return float(f'{x:.{n}g}')


def log_uniform(lo, hi, digits=7):
    return st.floats(math.log(lo), math.log(hi)).map(lambda v: _r(math.exp(v), digits))


def _table_freqs(draw, f_lo, f_hi, npoints):
    """npoints frequencies (Hz, ascending, distinct) whose first/last lie outside [f_lo, f_hi]"""
    lo = f_lo - draw(st.sampled_from([0.5e12, 1e12, 3e12]))
    hi = f_hi + draw(st.sampled_from([0.5e12, 1e12, 3e12]))
    if npoints == 2:
        return [lo, hi]
    # interior points at distinct generated fractions
    fracs = sorted(draw(st.lists(st.integers(1, 99), min_size=npoints - 2, max_size=npoints - 2, unique=True)))
    return [lo] + [_r(lo + (hi - lo) * k / 100.0, 12) for k in fracs] + [hi]


def _table(draw, fr, vals):
    """a per-frequency table; the points are listed by increasing frequency, by decreasing frequency (the order of a
    data sheet given by wavelength) or in any order - the documentation does not ask for an order"""
    order = draw(st.sampled_from(['up', 'up', 'down', 'any']))
    idx = list(range(len(fr)))
    if order == 'down':
        idx.reverse()
    elif order == 'any':
        idx = list(draw(st.permutations(idx)))
    return {'value': [vals[i] for i in idx], 'frequency': [fr[i] for i in idx]}


def sorted_table(table):
    pairs = sorted(zip(table['frequency'], table['value']))
    return {'frequency': [p[0] for p in pairs], 'value': [p[1] for p in pairs]}


@st.composite
def loss_coef(draw, f_lo, f_hi, rng=(0.12, 0.4), per_frequency=True):
    """scalar dB/km or {'value': [...], 'frequency': [...]} spanning the band"""
    scalar = draw(st.one_of(st.sampled_from([0.2, 0.22, 0.25, 0.18]), st.floats(*rng).map(lambda v: _r(v, 5))))
    if not per_frequency or draw(st.integers(0, 3)) != 0:
        return scalar
    n = draw(st.integers(2, 5))
    fr = _table_freqs(draw, f_lo, f_hi, n)
    vals = [draw(st.floats(*rng).map(lambda v: _r(v, 5))) for _ in range(n)]
    return _table(draw, fr, vals)


@st.composite
def dispersion(draw, f_lo, f_hi, ref_wavelength):
    """-> dict of the dispersion-related keys. |D| in 0.5..25 ps/nm/km, either sign (same sign over the band)"""
    sign = draw(st.sampled_from([1.0, 1.0, 1.0, -1.0]))
    d = sign * draw(st.one_of(st.sampled_from([1.67e-05, 4.4e-06, 2.2e-05]),
                              st.floats(0.5e-6, 25e-6).map(lambda v: _r(v, 6))))
    kind = draw(st.sampled_from(['scalar', 'scalar', 'slope', 'per_frequency']))
    if kind == 'scalar':
        return {'dispersion': d}
    if kind == 'slope':
        # D(lambda) = D + S (lambda - lambda_ref); keep |S| * max|lambda - lambda_ref| <= 0.8 |D| over the band
        dl = max(abs(C / f_lo - ref_wavelength), abs(C / f_hi - ref_wavelength), 1e-9)
        smax = min(150.0, 0.8 * abs(d) / dl)            # s/m^3 (0.06 ps/nm^2/km = 60)
        s = draw(st.one_of(st.just(min(60.0, smax)), st.floats(-smax, smax).map(lambda v: _r(v, 6))))
        return {'dispersion': d, 'dispersion_slope': s}
    n = draw(st.integers(3, 6))      # beta3 is a degree-2 polyfit over the table: needs >= 3 points
    fr = _table_freqs(draw, f_lo, f_hi, n)
    vals = [sign * draw(st.floats(0.5e-6, 25e-6).map(lambda v: _r(v, 6))) for _ in range(n)]
    return {'dispersion_per_frequency': _table(draw, fr, vals)}


@st.composite
def nonlinearity(draw):
    kind = draw(st.sampled_from(['effective_area', 'gamma', 'both', 'default']))
    area = draw(st.one_of(st.sampled_from([83e-12, 72e-12, 125e-12]), st.floats(30e-12, 150e-12).map(lambda v: _r(v, 6))))
    gam = draw(st.one_of(st.sampled_from([0.00127, 0.00146]), st.floats(0.0004, 0.004).map(lambda v: _r(v, 6))))
    if kind == 'effective_area':
        return {'effective_area': area}
    if kind == 'gamma':
        return {'gamma': gam}
    if kind == 'both':
        return {'effective_area': area, 'gamma': gam}
    return {}


@st.composite
def lumped_losses(draw, length_km, max_n=3):
    """0..max_n lumped losses at distinct positions strictly inside (0, length)"""
    n = draw(st.integers(0, max_n))
    if n == 0:
        return []
    ks = draw(st.lists(st.integers(1, 999), min_size=n, max_size=n, unique=True))
    out = []
    for k in ks:   # generated (unsorted) order: the order of the list must not matter
        pos = length_km * k / 1000.0
        out.append({'position': pos, 'loss': draw(st.one_of(st.sampled_from([0.5, 1.0, 3.0]),
                                                            st.floats(0.0, 6.0).map(lambda v: _r(v, 5))))})
    return out


@st.composite
def reference(draw, channel_freqs=()):
    """reference wavelength / frequency keys (default: none => 1550 nm). -> (dict, ref_wavelength)"""
    kind = draw(st.sampled_from(['default', 'default', 'ref_wavelength', 'ref_frequency', 'ref_on_channel']))
    if kind == 'ref_wavelength':
        w = draw(st.floats(1520e-9, 1580e-9).map(lambda v: _r(v, 8)))
        return {'ref_wavelength': w}, w
    if kind == 'ref_frequency':
        f = draw(st.floats(190e12, 197e12).map(lambda v: _r(v, 8)))
        return {'ref_frequency': f}, C / f
    if kind == 'ref_on_channel' and channel_freqs:
        f = draw(st.sampled_from(sorted(channel_freqs)))
        return {'ref_frequency': f}, C / f
    return {}, 1550e-9


@st.composite
def fibre(draw, f_lo, f_hi, length_km=None, length_range=(0.1, 300.0), per_frequency_loss=True, lumped=True,
          channel_freqs=(), att_in=True):
    """Complete params dict for gnpy.core.elements.Fiber for a spectrum inside [f_lo, f_hi]."""
    if length_km is None:
        length_km = draw(st.one_of(st.sampled_from([80.0, 50.0, 100.0, 120.0, 25.0]), log_uniform(*length_range)))
    ref, ref_wl = draw(reference(channel_freqs))
    p = {'length': length_km, 'length_units': 'km',
         'loss_coef': draw(loss_coef(f_lo, f_hi, per_frequency=per_frequency_loss)),
         'con_in': draw(st.one_of(st.sampled_from([0.0, 0.5, 0.25]), st.floats(0.0, 2.0).map(lambda v: _r(v, 5)))),
         'con_out': draw(st.one_of(st.sampled_from([0.0, 0.5, 1.0]), st.floats(0.0, 2.0).map(lambda v: _r(v, 5)))),
         'att_in': draw(st.one_of(st.just(0.0), st.floats(0.0, 3.0).map(lambda v: _r(v, 5)))) if att_in else 0.0,
         'pmd_coef': draw(st.one_of(st.sampled_from([1.265e-15, 0.0, 2.0e-15]),
                                    st.floats(0.1e-15, 4e-15).map(lambda v: _r(v, 6))))}
    p.update(ref)
    p.update(draw(dispersion(f_lo, f_hi, ref_wl)))
    p.update(draw(nonlinearity()))
    if lumped:
        ll = draw(lumped_losses(length_km))
        if ll:
            p['lumped_losses'] = ll
    return p


def band_of(chans):
    """(f_lo, f_hi) covering every slot of a comb (list of channel dicts of pbt.gens.spectra)"""
    return (min(c['f'] - c['slot'] / 2 for c in chans), max(c['f'] + c['slot'] / 2 for c in chans))


def make_fiber(params, uid='fiber', cls=None, operational=None):
    """fresh gnpy Fiber / RamanFiber from a params dict (deep-copied), ready to be called"""
    import copy
    from gnpy.core.elements import Fiber
    cls = cls or Fiber
    kw = {'operational': copy.deepcopy(operational)} if operational is not None else {}
    fib = cls(uid=uid, type_variety='x', params=copy.deepcopy(params), **kw)
    fib.ref_pch_in_dbm = 0.0
    return fib


def si_from(chans, powers=None, order=None):
    """SpectralInformation from a comb with explicit per-channel powers [W] (default: the comb's p_dbm), channels
    supplied in the order given by `order` (list of indices into chans)."""
    import numpy as np
    from gnpy.core.info import create_arbitrary_spectral_information
    if powers is None:
        powers = [1e-3 * 10 ** (c['p_dbm'] / 10) for c in chans]
    idx = list(range(len(chans))) if order is None else list(order)
    cs = [chans[i] for i in idx]
    p = np.array([float(powers[i]) for i in idx])
    return create_arbitrary_spectral_information(
        frequency=np.array([c['f'] for c in cs]), pch=p, baud_rate=np.array([c['baud'] for c in cs]),
        slot_width=np.array([c['slot'] for c in cs]), roll_off=np.array([c['roll'] for c in cs]),
        tx_osnr=np.array([c['tx_osnr'] for c in cs]), tx_power=p.copy(),
        delta_pdb_per_channel=np.array([c['dp'] for c in cs]), label=np.array([c['label'] for c in cs]))
