"""Equipment-library and topology generators (DESIGN §2.8).

Everything returned is plain legacy-format JSON, fully explicit (no dependency on data files of the
repository other than the two amplifier 'advanced config' tables shipped inside the gnpy package and loaded
through gnpy.tools.default_edfa_config.DEFAULT_EXTRA_CONFIG).

uid scheme of generated topologies (ground truth used by routing / disjointness / OMS oracles):
    'roadm R<i>', 'trx R<i>'
    'fiber L<l>.<ab|ba>.<k>'    k-th span of link l in direction a->b or b->a
    'amp L<l>.<ab|ba>.<k>'      user-placed in-line amplifier after span k
    'booster L<l>.<ab|ba>', 'preamp L<l>.<ab|ba>', 'fused L<l>.<ab|ba>.<k>'
Elements inserted by auto-design embed the uid of the neighbouring fibre, so `link_of(uid)` works for them too.
"""
import math
import re
from hypothesis import strategies as st

C_BAND = (191.275e12, 196.125e12)          # default amplifier band (DEFAULT_EDFA_CONFIG)
L_BAND = (186.55e12, 190.05e12)

_LINK_RE = re.compile(r'L(\d+)\.(ab|ba)')


def link_of(uid: str):
    """(link id, direction) encoded in a generated / design-derived uid, or None"""
    m = _LINK_RE.search(uid)
    return (int(m.group(1)), m.group(2)) if m else None


def _r(x, n=4):
    return round(float(x), n)


# ------------------------------------------------------------------------------------------- amplifiers

def _db2lin(x):
    return 10 ** (x / 10)


def _lin2db(x):
    return 10 * math.log10(x)


@st.composite
def variable_gain_entry(draw, name, band=None, design=None, gain_range=None):
    if gain_range is not None:
        gmin, gmax = gain_range
    else:
        gmin = draw(st.integers(5, 22))
        gmax = gmin + draw(st.integers(4, 12))
    # forward construction (docs/amplifier_models_description): choose coil NFs, derive datasheet nf_min/nf_max
    nf1 = draw(st.floats(4.2, 7.0))
    nf2 = nf1 + draw(st.floats(0.4, 1.9))
    g1a_max = gmax - 5
    g1a_min = gmin - (gmax - gmin) - 5
    nf_min = _lin2db(_db2lin(nf1) + _db2lin(nf2) / _db2lin(g1a_max))
    nf_max = _lin2db(_db2lin(nf1) + _db2lin(nf2) / _db2lin(g1a_min))
    e = {'type_variety': name, 'type_def': 'variable_gain', 'gain_flatmax': gmax, 'gain_min': gmin,
         'p_max': draw(st.sampled_from([16, 18, 20, 21, 23, 25])), 'nf_min': _r(nf_min), 'nf_max': _r(nf_max),
         'out_voa_auto': draw(st.sampled_from([False, False, True])),
         'allowed_for_design': draw(st.booleans()) if design is None else design}
    if band:
        e['f_min'], e['f_max'] = band
    return e


@st.composite
def fixed_gain_entry(draw, name, band=None, design=None):
    gmax = draw(st.integers(10, 30))
    e = {'type_variety': name, 'type_def': 'fixed_gain', 'gain_flatmax': gmax,
         'gain_min': gmax - draw(st.integers(0, 3)), 'p_max': draw(st.sampled_from([16, 20, 21, 23])),
         'nf0': _r(draw(st.floats(4.0, 8.0)), 2),
         'allowed_for_design': draw(st.booleans()) if design is None else design}
    if band:
        e['f_min'], e['f_max'] = band
    return e


@st.composite
def advanced_entry(draw, name, design=None):
    cfg = draw(st.sampled_from(['std_medium_gain_advanced_config.json', 'Juniper-BoosterHG.json']))
    gmax = draw(st.integers(20, 28))
    return {'type_variety': name, 'type_def': 'advanced_model', 'gain_flatmax': gmax,
            'gain_min': gmax - draw(st.integers(5, 12)), 'p_max': draw(st.sampled_from([20, 21, 23])),
            'advanced_config_from_json': cfg, 'out_voa_auto': draw(st.sampled_from([False, True])),
            'allowed_for_design': draw(st.booleans()) if design is None else design}


@st.composite
def openroadm_entry(draw, name, design=None):
    kind = draw(st.sampled_from(['openroadm', 'openroadm', 'openroadm_preamp', 'openroadm_booster']))
    e = {'type_variety': name, 'type_def': kind, 'gain_flatmax': draw(st.sampled_from([27, 32])), 'gain_min': 0,
         'p_max': 22, 'pmd': draw(st.sampled_from([0, 3e-12])), 'pdl': draw(st.sampled_from([0, 0.7])),
         'allowed_for_design': draw(st.booleans()) if design is None else design}
    if kind == 'openroadm':
        e['nf_coef'] = draw(st.sampled_from([[-0.0008104, -0.06221, -0.5889, 37.62],
                                             [-0.0005952, -0.0625, -1.071, 28.99],
                                             [-0.0005952, -0.0625, -1.071, 27.99]]))
    return e


@st.composite
def edfa_library(draw, n=(2, 6), kinds=('variable_gain', 'fixed_gain', 'advanced_model', 'openroadm', 'dual_stage'),
                 ensure_design=True, raman=False):
    """List of single-band C amplifiers named A0..An-1 (+ optional dual-stage / raman-flagged ones)"""
    count = draw(st.integers(*n))
    out = []
    for i in range(count):
        kind = draw(st.sampled_from([k for k in kinds if k != 'dual_stage']))
        name = f'A{i}'
        design = True if (ensure_design and i == 0) else None
        if kind == 'variable_gain' or (ensure_design and i == 0):
            e = draw(variable_gain_entry(name, design=design))
        elif kind == 'fixed_gain':
            e = draw(fixed_gain_entry(name, design=design))
        elif kind == 'advanced_model':
            e = draw(advanced_entry(name, design=design))
        else:
            e = draw(openroadm_entry(name, design=design))
        if draw(st.integers(0, 5)) == 0:
            e['pmd'] = draw(st.sampled_from([1e-12, 3e-12]))
            e['pdl'] = draw(st.sampled_from([0.3, 0.7]))
        out.append(e)
    if 'dual_stage' in kinds and count >= 2 and draw(st.booleans()):
        vg = [e for e in out if e['type_def'] in ('variable_gain', 'fixed_gain')]
        if len(vg) >= 2:
            pre, boo = vg[0], vg[1]
            is_raman = raman and draw(st.booleans())
            d = {'type_variety': 'D0', 'type_def': 'dual_stage', 'gain_min': pre['gain_min'] + draw(st.integers(0, 10)),
                 'preamp_variety': pre['type_variety'], 'booster_variety': boo['type_variety'],
                 'allowed_for_design': draw(st.booleans())}
            if is_raman:
                d['raman'] = True
            out.append(d)
    if raman and draw(st.integers(0, 2)) > 0:
        # hybrid Raman / EDFA like the shipped hybrid_4pumps models: a low-noise Raman stage (not selectable alone) in front of
        # one of the EDFAs; quiet enough to be the best choice wherever the Raman rule permits it
        boo = next((e for e in out if e['type_def'] in ('variable_gain', 'fixed_gain')), None)
        if boo is not None:
            g = draw(st.sampled_from([8, 10, 12]))
            out.append({'type_variety': 'RP', 'type_def': 'fixed_gain', 'gain_flatmax': g, 'gain_min': g, 'p_max': 21,
                        'nf0': draw(st.sampled_from([-1.0, 0.0, 1.5])), 'allowed_for_design': False})
            out.append({'type_variety': 'HY', 'type_def': 'dual_stage', 'raman': True, 'gain_min': g + boo['gain_min'],
                        'preamp_variety': 'RP', 'booster_variety': boo['type_variety'],
                        'allowed_for_design': draw(st.integers(0, 3)) > 0})
    return out


# ------------------------------------------------------------------------------------------- other sections

def fiber_types():
    return [
        {'type_variety': 'SSMF', 'dispersion': 1.67e-05, 'effective_area': 83e-12, 'pmd_coef': 1.265e-15},
        {'type_variety': 'NZDF', 'dispersion': 0.5e-05, 'effective_area': 72e-12, 'pmd_coef': 1.265e-15},
        {'type_variety': 'LOF', 'dispersion': 2.2e-05, 'gamma': 0.0008, 'pmd_coef': 0.5e-15},
        {'type_variety': 'SLOPE', 'dispersion': 1.67e-05, 'dispersion_slope': 59.0, 'effective_area': 83e-12,
         'pmd_coef': 1.0e-15},
        # negative (normal) dispersion fibre: accumulated CD decreases along it
        {'type_variety': 'NDF', 'dispersion': -0.8e-05, 'effective_area': 55e-12, 'pmd_coef': 1.0e-15},
    ]


@st.composite
def span_entry(draw, power_mode=None, eol=None, padding=None, max_length=None):
    # bounds need not lie on the step grid (the rule is: round to the step, then clamp to the range)
    lo = draw(st.sampled_from([0, -1, -2, -4, -1.2, -0.3]))
    hi = draw(st.sampled_from([0, 1, 3, 5, 2.3, 0.7]))
    return {
        'power_mode': draw(st.booleans()) if power_mode is None else power_mode,
        'delta_power_range_db': [lo, hi, draw(st.sampled_from([0.5, 0.5, 1, 0.2]))],
        'max_fiber_lineic_loss_for_raman': draw(st.sampled_from([0.25, 0.2, 0.3])),
        'target_extended_gain': draw(st.sampled_from([2.5, 0, 1.0, 3.0])),
        'max_length': draw(st.sampled_from([150, 150, 100, 80, 120, 200])) if max_length is None else max_length,
        'length_units': 'km', 'max_loss': 28,
        'padding': draw(st.sampled_from([10, 10, 0, 5, 8, 12, 15])) if padding is None else padding,
        'EOL': draw(st.sampled_from([0, 0, 0.5, 1.5, 3])) if eol is None else eol,
        'con_in': draw(st.sampled_from([0, 0, 0.5, 1.0])), 'con_out': draw(st.sampled_from([0, 0, 0.5, 1.0])),
        'span_loss_ref': draw(st.sampled_from([20.0, 20.0, 18.0, 25.0])),
        'power_slope': draw(st.sampled_from([0.3, 0.3, 0.2, 0.5, 0.0])),
        'voa_margin': draw(st.sampled_from([1, 1, 0, 2])), 'voa_step': draw(st.sampled_from([0.5, 0.5, 1.0, 0.2])),
    }


@st.composite
def si_entry(draw, band=(191.3e12, 196.1e12), name=None, power=None, tx_power=None):
    spacing = draw(st.sampled_from([50e9, 50e9, 37.5e9, 75e9, 100e9]))
    e = {'f_min': band[0], 'f_max': band[1], 'baud_rate': min(draw(st.sampled_from([32e9, 32e9, 64e9, 28e9])), spacing),
         'spacing': spacing, 'power_dbm': draw(st.sampled_from([0, 0, 1, -1, 2, -3])) if power is None else power,
         'power_range_db': [0, 0, 0.5], 'roll_off': 0.15, 'tx_osnr': draw(st.sampled_from([100, 40, 45, 35])),
         'sys_margins': draw(st.sampled_from([0, 0, 2, 1.5]))}
    if name:
        e['type_variety'] = name
    t = draw(st.sampled_from([None, None, 0, -10])) if tx_power is None else tx_power
    if t is not None and t != 'none':
        e['tx_power_dbm'] = t
    if draw(st.integers(0, 4)) == 0:
        e['use_si_channel_count_for_design'] = True
    if draw(st.integers(0, 3)) == 0:
        # frequencies written as JSON integers (191300000000000 instead of 191.3e12): the same values
        for k in ('f_min', 'f_max', 'spacing', 'baud_rate'):
            if float(e[k]).is_integer():
                e[k] = int(e[k])
    return e


def _impairment_profiles(draw, band):
    """three profiles (express/add/drop) valid for `band`, optionally split in two frequency ranges"""
    def rng(lo, hi, extra):
        d = {'frequency-range': {'lower-frequency': lo, 'upper-frequency': hi}}
        d.update(extra)
        return d
    split = draw(st.booleans())
    mid = _r((band[0] + band[1]) / 2, 0)

    def prof(kind):
        vals = {'roadm-pmd': draw(st.sampled_from([0, 1e-12])), 'roadm-cd': 0,
                'roadm-pdl': draw(st.sampled_from([0, 0.5])), 'roadm-inband-crosstalk': 0,
                'roadm-maxloss': draw(st.sampled_from([0, 6.0, 11.5, 16.5]))}
        if kind != 'express':
            vals['roadm-osnr'] = draw(st.sampled_from([41, 35, 30, 45]))
        if not split:
            return [rng(band[0], band[1], vals)]
        vals2 = dict(vals)
        vals2['roadm-maxloss'] = draw(st.sampled_from([0, 4.0, 12.0]))
        if kind != 'express':
            vals2['roadm-osnr'] = draw(st.sampled_from([41, 33]))
        return [rng(band[0], mid, vals), rng(mid, band[1], vals2)]
    return [
        {'roadm-path-impairments-id': 0, 'roadm-express-path': prof('express')},
        {'roadm-path-impairments-id': 1, 'roadm-add-path': prof('add')},
        {'roadm-path-impairments-id': 2, 'roadm-drop-path': prof('drop')},
        {'roadm-path-impairments-id': 3, 'roadm-express-path': prof('express')},
        {'roadm-path-impairments-id': 4, 'roadm-add-path': prof('add')},
        {'roadm-path-impairments-id': 5, 'roadm-drop-path': prof('drop')},
    ]


@st.composite
def equalization(draw, allow_zero=False):
    """(key, value) for one of the three policies"""
    kind = draw(st.sampled_from(['target_pch_out_db', 'target_pch_out_db', 'target_psd_out_mWperGHz',
                                 'target_out_mWperSlotWidth']))
    if kind == 'target_pch_out_db':
        vals = [-20, -18, -17, -22, -15, -25]
        if allow_zero:
            vals.append(0)
        return kind, draw(st.sampled_from(vals))
    if kind == 'target_psd_out_mWperGHz':
        return kind, draw(st.sampled_from([3.125e-4, 2.5e-4, 5e-4, 1.5e-4]))
    return kind, draw(st.sampled_from([2e-4, 1.5e-4, 3e-4, 4e-4]))


@st.composite
def roadm_entries(draw, amp_names=(), impairments=True, band=(191.3e12, 196.1e12), policies=True):
    """default Roadm + optional named varieties ('r1' with restrictions, 'r2' with detailed impairments)"""
    def one(name):
        if policies:
            k, v = draw(equalization())
        else:
            k, v = 'target_pch_out_db', draw(st.sampled_from([-20, -18, -22]))
        e = {k: v, 'add_drop_osnr': draw(st.sampled_from([38, 35, 30, 33, 45, 100])),
             'pmd': draw(st.sampled_from([0, 0, 1e-12, 3e-12])), 'pdl': draw(st.sampled_from([0, 0, 0.5, 1.5])),
             'restrictions': {'preamp_variety_list': [], 'booster_variety_list': []}}
        if name:
            e['type_variety'] = name
        return e
    out = [one(None)]
    if amp_names and draw(st.booleans()):
        e = one('r1')
        e['restrictions'] = {
            'preamp_variety_list': draw(st.lists(st.sampled_from(list(amp_names)), max_size=2, unique=True)),
            'booster_variety_list': draw(st.lists(st.sampled_from(list(amp_names)), max_size=2, unique=True))}
        out.append(e)
    if impairments and draw(st.booleans()):
        e = one('r2')
        e['roadm-path-impairments'] = _impairment_profiles(draw, band)
        out.append(e)
    return out


@st.composite
def penalties(draw):
    out = []
    if draw(st.booleans()):
        hi = draw(st.sampled_from([500.0, 2e3, 4e3, 1.8e4, 4e4, 1e5]))
        out += [{'chromatic_dispersion': -hi / 10, 'penalty_value': 0}, {'chromatic_dispersion': hi / 2, 'penalty_value': 0},
                {'chromatic_dispersion': hi, 'penalty_value': draw(st.sampled_from([0.5, 1.0, 2.0]))}]
    if draw(st.booleans()):
        out += [{'pmd': draw(st.sampled_from([10, 30])), 'penalty_value': 0},
                {'pmd': draw(st.sampled_from([40, 60])), 'penalty_value': draw(st.sampled_from([0.5, 1.0]))}]
    if draw(st.booleans()):
        out += [{'pdl': 1, 'penalty_value': 0.5}, {'pdl': 2, 'penalty_value': 1}, {'pdl': 4, 'penalty_value': 2.5}]
    return out


@st.composite
def transceiver_entries(draw, band=(191.3e12, 196.1e12), n_modes=(1, 5), osnr=(8, 30), with_penalties=True,
                        offsets=False, wide_spacing=False):
    """one transceiver type 'T0' (+ optionally 'T1') with generated modes named m0.."""
    out = []
    for t in range(draw(st.integers(1, 2))):
        modes = []
        bauds = draw(st.lists(st.sampled_from([28e9, 32e9, 44e9, 64e9, 66e9]), min_size=1, max_size=3, unique=True))
        for i in range(draw(st.integers(*n_modes))):
            b = bauds[i % len(bauds)]
            m = {'format': f'm{i}', 'baud_rate': b, 'OSNR': _r(draw(st.floats(*osnr)), 2),
                 'bit_rate': draw(st.sampled_from([100e9, 200e9, 300e9, 400e9])), 'roll_off': 0.15,
                 'tx_osnr': draw(st.sampled_from([100, 40, 45, 36])),
                 'min_spacing': {28e9: 37.5e9, 32e9: 50e9, 44e9: 62.5e9, 64e9: 75e9, 66e9: 75e9}[b], 'cost': 1}
            if wide_spacing and draw(st.integers(0, 3)) == 0:
                # a mode that needs more room than its baud rate alone (e.g. a higher-order format): modes of one baud rate
                # may differ in min_spacing
                m['min_spacing'] += draw(st.sampled_from([12.5e9, 25e9]))
            if with_penalties and draw(st.booleans()):
                m['penalties'] = draw(penalties())
            if offsets and draw(st.booleans()):
                m['equalization_offset_db'] = draw(st.sampled_from([0, 1.0, -1.0, 2.5]))
            modes.append(m)
        out.append({'type_variety': f'T{t}', 'frequency': {'min': band[0], 'max': band[1]}, 'mode': modes})
    return out


@st.composite
def equipment(draw, edfa=None, span=None, si=None, roadm=None, trx=None, raman_fiber=False, **kw):
    """A complete legacy-format equipment library (single band)."""
    lib = draw(edfa_library(**kw)) if edfa is None else edfa
    si = draw(si_entry()) if si is None else si
    names = covering(lib, (si['f_min'], si['f_max']))
    eq = {
        'Edfa': lib,
        'Fiber': fiber_types(),
        'Span': [draw(span_entry()) if span is None else span],
        'Roadm': draw(roadm_entries(names)) if roadm is None else roadm,
        'SI': [si],
        'Transceiver': draw(transceiver_entries()) if trx is None else trx,
    }
    if raman_fiber:
        eq['RamanFiber'] = [dict(f) for f in fiber_types()[:1]]
    return eq


def amp_band(entry):
    """(f_min, f_max) of a single-band library entry as the loader will see it"""
    if 'f_min' in entry:
        return entry['f_min'], entry['f_max']
    if entry.get('advanced_config_from_json') == 'Juniper-BoosterHG.json':
        return 191.4e12, 196.1e12
    return C_BAND


def covering(edfa_entries, band):
    """names of the single-band entries whose band covers `band` (dual-stage entries take the default band)"""
    return [e['type_variety'] for e in edfa_entries
            if e['type_def'] != 'multi_band' and amp_band(e)[0] <= band[0] and amp_band(e)[1] >= band[1]]


def load_equipment(eq_json):
    """through the real loader"""
    import copy
    from gnpy.tools.json_io import _equipment_from_json
    from gnpy.tools.default_edfa_config import DEFAULT_EXTRA_CONFIG
    return _equipment_from_json(copy.deepcopy(eq_json), DEFAULT_EXTRA_CONFIG)


# ------------------------------------------------------------------------------------------- fibres

@st.composite
def fiber_params(draw, length_km=None, lumped=True, per_freq_loss=True, connectors=True, variety=None,
                 overrides=True, loss=(0.16, 0.30), dispersion_slope=None):
    if length_km is None:
        length_km = draw(st.one_of(st.sampled_from([80.0, 50.0, 100.0, 120.0]), st.floats(0.005, 160.0).map(lambda x: _r(x, 3)),
                                   st.floats(20.0, 110.0).map(lambda x: _r(x, 2))))
    p = {'length': length_km, 'length_units': 'km', 'loss_coef': _r(draw(st.sampled_from([0.2, 0.2, 0.22, 0.25, 0.18]))
                                                                  if draw(st.booleans()) else draw(st.floats(*loss)), 4)}
    if per_freq_loss and draw(st.integers(0, 7)) == 0:
        base = p['loss_coef']
        # several profiles: the value at the reference frequency (193.4 THz) may be the lowest of the table, so that the
        # fibre is below a lineic-loss limit there and above it elsewhere
        shape = draw(st.sampled_from([[0.02, 0.0, 0.01, 0.03], [0.03, -0.01, -0.005, 0.04], [0.0, 0.0, 0.0, 0.05],
                                      [0.06, 0.02, 0.0, 0.0]]))
        p['loss_coef'] = {'value': [_r(base + d, 4) for d in shape], 'frequency': [184e12, 190e12, 194e12, 198e12]}
    if connectors:
        c = draw(st.sampled_from(['null', 'null', 'val', 'zero', 'in-only', 'out-only']))
        if c == 'null':
            p['con_in'], p['con_out'] = None, None
        elif c == 'zero':
            p['con_in'], p['con_out'] = 0, 0
        elif c == 'in-only':
            # one connector measured, the other left to the Span default
            p['con_in'], p['con_out'] = draw(st.sampled_from([0.2, 0.5, 1.0])), None
        elif c == 'out-only':
            p['con_in'], p['con_out'] = None, draw(st.sampled_from([0.3, 0.5, 1.0]))
        else:
            p['con_in'], p['con_out'] = draw(st.sampled_from([0.2, 0.5, 1.0])), draw(st.sampled_from([0.3, 0.5, 1.0]))
    else:
        p['con_in'], p['con_out'] = 0, 0
    p['att_in'] = draw(st.sampled_from([0, 0, 0, 1.0, 2.5]))
    if lumped and length_km > 1.0 and draw(st.integers(0, 4)) == 0:
        n = draw(st.integers(1, 3))
        pos = sorted({_r(length_km * draw(st.floats(0.05, 0.95)), 3) for _ in range(n)})
        p['lumped_losses'] = [{'position': x, 'loss': draw(st.sampled_from([0.5, 1.0, 1.5, 3.0]))} for x in pos
                              if 0 < x < length_km]
        if not p['lumped_losses']:
            del p['lumped_losses']
    if overrides and draw(st.integers(0, 5)) == 0:
        p['pmd_coef'] = draw(st.sampled_from([1.0e-15, 2.0e-15, 0.4e-15]))
    if dispersion_slope is not None:
        # element-level dispersion slope (s/m^3): chromatic dispersion differs from channel to channel
        p['dispersion_slope'] = dispersion_slope
    v = variety or draw(st.sampled_from(['SSMF', 'SSMF', 'NZDF', 'LOF', 'SLOPE', 'NDF']))
    return v, p


# ------------------------------------------------------------------------------------------- topologies

def _meta(city):
    return {'location': {'latitude': 0, 'longitude': 0, 'city': city, 'region': ''}}


@st.composite
def graph(draw, n=(2, 5), extra_max=3, parallel=False):
    """connected undirected (multi)graph: list of (a, b) with a != b"""
    k = draw(st.integers(*n))
    links = []
    for i in range(1, k):  # random spanning tree
        links.append((draw(st.integers(0, i - 1)), i))
    cand = [(a, b) for a in range(k) for b in range(a + 1, k) if (a, b) not in links]
    if cand:
        extra = draw(st.lists(st.sampled_from(cand), max_size=min(extra_max, len(cand)), unique=True))
        links.extend(extra)
    if parallel and draw(st.booleans()):
        a, b = links[draw(st.integers(0, len(links) - 1))]
        links.append((a, b))
    # direction of declaration (a,b) or (b,a) is arbitrary
    flips = draw(st.lists(st.booleans(), min_size=len(links), max_size=len(links)))
    links = [(b, a) if f else (a, b) for (a, b), f in zip(links, flips)]
    return k, links


@st.composite
def amp_element(draw, uid, eq_json, city, force=None, allow_settings=True):
    """A user-placed Edfa element: with/without type_variety, with full / partial / no operational settings."""
    si0 = eq_json['SI'][0]
    names = covering(eq_json['Edfa'], (si0['f_min'], si0['f_max']))
    style = force or draw(st.sampled_from(['empty', 'empty', 'typed', 'typed_full', 'typed_partial', 'list']))
    el = {'uid': uid, 'type': 'Edfa', 'metadata': _meta(city)}
    op = {'gain_target': None, 'delta_p': None, 'tilt_target': 0, 'out_voa': None}
    if style == 'empty':
        el['type_variety'] = ''
    elif style == 'list':
        el['type_variety'] = ''
        el['variety_list'] = draw(st.lists(st.sampled_from(names), min_size=1, max_size=3, unique=True))
    else:
        el['type_variety'] = draw(st.sampled_from(names))
        if allow_settings and style == 'typed_full':
            op = {'gain_target': _r(draw(st.floats(8, 28)), 2), 'delta_p': draw(st.sampled_from([None, 0, 1.0, -1.5])),
                  'tilt_target': draw(st.sampled_from([0, 0, -1.0, 0.5])), 'out_voa': draw(st.sampled_from([0, 0, 1.0, 2.5]))}
        elif allow_settings and style == 'typed_partial':
            which = draw(st.sampled_from(['gain', 'dp', 'voa', 'invoa', 'tilt']))
            if which == 'gain':
                op['gain_target'] = _r(draw(st.floats(8, 28)), 2)
            elif which == 'dp':
                op['delta_p'] = draw(st.sampled_from([0, 1.0, -1.0, 2.0]))
            elif which == 'voa':
                op['out_voa'] = draw(st.sampled_from([0, 1.0, 3.0]))
            elif which == 'invoa':
                op['in_voa'] = draw(st.sampled_from([0.5, 1.0]))
            else:
                op['tilt_target'] = draw(st.sampled_from([-1.0, 0.7]))
    el['operational'] = op
    return el


@st.composite
def chain(draw, lid, direction, eq_json, spans=(1, 3), fused=True, user_amps=True, length_km=None, fiber_kw=None,
          raman=False, fibreless=False):
    """One direction of a link: elements (list) in order, without the end ROADMs.
    fibreless: sometimes a link without any fibre span (two ROADMs of one office joined by a patch cord = one Fused, or by
    one amplifier)"""
    tag = f'L{lid}.{direction}'
    els = []
    if fibreless and draw(st.integers(0, 5)) == 0:
        if draw(st.booleans()):
            return [{'uid': f'fused {tag}.b', 'type': 'Fused', 'params': {'loss': draw(st.sampled_from([0.5, 1, 2]))},
                     'metadata': _meta(tag)}]
        return [draw(amp_element(f'booster {tag}', eq_json, tag))]
    if user_amps and draw(st.integers(0, 3)) == 0:
        els.append(draw(amp_element(f'booster {tag}', eq_json, tag)))
    elif fused and draw(st.integers(0, 9)) == 0:
        els.append({'uid': f'fused {tag}.b', 'type': 'Fused', 'params': {'loss': draw(st.sampled_from([0, 0.5, 1]))},
                    'metadata': _meta(tag)})
    n = draw(st.integers(*spans))
    # a chain of short fibres (patch cords, intra-office links): the whole span stays below the padding
    short = length_km is None and draw(st.integers(0, 4)) == 0
    for k in range(n):
        lk = draw(st.sampled_from([0.5, 2.0, 5.0, 10.0, 20.0])) if short else length_km
        v, p = draw(fiber_params(length_km=lk, **(fiber_kw or {})))
        f = {'uid': f'fiber {tag}.{k}', 'type': 'Fiber', 'type_variety': v, 'params': p, 'metadata': _meta(tag)}
        if raman and draw(st.integers(0, 3)) == 0 and not isinstance(p['loss_coef'], dict):
            f['type'] = 'RamanFiber'
            f['type_variety'] = 'SSMF'
            # RamanFiber needs numeric connector losses at construction (pump power is referred through con_out)
            p['con_in'] = p['con_in'] if p.get('con_in') is not None else 0.5
            p['con_out'] = p['con_out'] if p.get('con_out') is not None else 0.5
            f['operational'] = {'temperature': 283, 'raman_pumps': [
                {'power': draw(st.sampled_from([0.2, 0.25])), 'frequency': 205e12, 'propagation_direction': 'counterprop'},
                {'power': draw(st.sampled_from([0.2, 0.3])), 'frequency': 201e12, 'propagation_direction': 'counterprop'}]}
            low = draw(st.integers(0, 5))
            if low in (0, 1):
                # a pump below the carriers (the carriers then sit on the anti-Stokes side of that pump)
                f['operational']['raman_pumps'].append({'power': draw(st.sampled_from([0.05, 0.1])), 'frequency': 188e12,
                                                        'propagation_direction': 'counterprop'})
            elif low == 2:
                # only such a pump: no Raman gain for the carriers, which feed the pump instead
                f['operational']['raman_pumps'] = [{'power': draw(st.sampled_from([0.1, 0.2])), 'frequency': 188e12,
                                                    'propagation_direction': 'counterprop'}]
        els.append(f)
        if k < n - 1:
            j = draw(st.sampled_from(['amp', 'amp', 'none', 'fused'] if (fused and user_amps) else
                                     (['amp', 'none'] if user_amps else ['none'])))
            if j == 'amp':
                els.append(draw(amp_element(f'amp {tag}.{k}', eq_json, tag)))
            elif j == 'fused':
                els.append({'uid': f'fused {tag}.{k}', 'type': 'Fused',
                            'params': {'loss': draw(st.sampled_from([0, 0.5, 1, 2]))}, 'metadata': _meta(tag)})
                if draw(st.integers(0, 2)) == 0:
                    # two junctions in a row (patch panel + splice): the span still runs from amplifier to amplifier
                    els.append({'uid': f'fused {tag}.{k}.bis', 'type': 'Fused',
                                'params': {'loss': draw(st.sampled_from([0, 0.5, 1]))}, 'metadata': _meta(tag)})
    if user_amps and draw(st.integers(0, 3)) == 0:
        els.append(draw(amp_element(f'preamp {tag}', eq_json, tag)))
    return els


@st.composite
def roadm_element(draw, i, eq_json, own_policy=True):
    varieties = [r.get('type_variety') for r in eq_json['Roadm']]
    el = {'uid': f'roadm R{i}', 'type': 'Roadm', 'metadata': _meta(f'R{i}'), 'params': {}}
    v = draw(st.sampled_from(varieties))
    if v:
        el['type_variety'] = v
    if own_policy and draw(st.integers(0, 2)) == 0:
        k, val = draw(equalization())
        el['params'][k] = val
    return el


@st.composite
def topology(draw, eq_json, n=(2, 5), extra_max=3, parallel=False, chain_kw=None, own_policy=True,
             per_degree=True, symmetric=None, per_degree_impairments=False, fixed_links=None):
    """Generated mesh. Returns {'elements','connections'} and truth {'n','links':[(a,b)]}."""
    if fixed_links is not None:
        links = [tuple(x) for x in fixed_links]
        k = max(max(a, b) for a, b in links) + 1
    else:
        k, links = draw(graph(n, extra_max, parallel))
    elements, connections = [], []
    roadms = []
    for i in range(k):
        elements.append({'uid': f'trx R{i}', 'type': 'Transceiver', 'metadata': _meta(f'R{i}')})
        r = draw(roadm_element(i, eq_json, own_policy))
        roadms.append(r)
        elements.append(r)
        connections.append({'from_node': f'trx R{i}', 'to_node': f'roadm R{i}'})
        connections.append({'from_node': f'roadm R{i}', 'to_node': f'trx R{i}'})
    sym = draw(st.booleans()) if symmetric is None else symmetric
    for lid, (a, b) in enumerate(links):
        ckw = dict(chain_kw or {})
        if lid == 0:
            # the first link always has a fibre span, hence amplifiers: a network without a single amplifier has no band to
            # build spectrum maps from (find_network_freq_range: min() of an empty list) - an input outside of what is claimed
            ckw.pop('fibreless', None)
        ab = draw(chain(lid, 'ab', eq_json, **ckw))
        if sym:
            # mirror the fibre parameters on the way back
            ba = []
            for e in reversed(ab):
                c = __import__('copy').deepcopy(e)
                c['uid'] = c['uid'].replace('.ab', '.ba')
                ba.append(c)
            # booster/preamp naming is positional only; keep uids unique
        else:
            ba = draw(chain(lid, 'ba', eq_json, **ckw))
        for src, dst, els in ((a, b, ab), (b, a, ba)):
            seq = [f'roadm R{src}'] + [e['uid'] for e in els] + [f'roadm R{dst}']
            elements.extend(els)
            for x, y in zip(seq[:-1], seq[1:]):
                connections.append({'from_node': x, 'to_node': y})
    if per_degree:
        # per-degree targets of possibly another kind than the node policy, on some egress degrees
        for i, r in enumerate(roadms):
            # only degrees whose first element survives auto-design unchanged (a user booster or a fused): a
            # per-degree key naming a fibre would silently stop matching once design inserts a booster before it
            degs = [c['to_node'] for c in connections if c['from_node'] == r['uid']
                    and c['to_node'].startswith(('booster ', 'fused '))]
            for d in degs:
                if draw(st.integers(0, 5)) == 0:
                    kkey, val = draw(equalization())
                    key = {'target_pch_out_db': 'per_degree_pch_out_db', 'target_psd_out_mWperGHz': 'per_degree_psd_out_mWperGHz',
                           'target_out_mWperSlotWidth': 'per_degree_psd_out_mWperSlotWidth'}[kkey]
                    r['params'].setdefault(key, {})[d] = val
            if len(degs) >= 2 and draw(st.integers(0, 3)) == 0:
                # two degrees of one ROADM equalised with different kinds of target (one table per kind on the element)
                d1, d2 = draw(st.permutations(degs))[:2]
                k1, k2 = draw(st.permutations(['per_degree_pch_out_db', 'per_degree_psd_out_mWperGHz',
                                               'per_degree_psd_out_mWperSlotWidth']))[:2]
                vals = {'per_degree_pch_out_db': [-20, -18, -22], 'per_degree_psd_out_mWperGHz': [3.125e-4, 2.5e-4],
                        'per_degree_psd_out_mWperSlotWidth': [2e-4, 1.5e-4]}
                for dd, kind in ((d1, k1), (d2, k2)):
                    for kk in vals:
                        r['params'].get(kk, {}).pop(dd, None)
                    r['params'].setdefault(kind, {})[dd] = draw(st.sampled_from(vals[kind]))
                for kk in vals:
                    if kk in r['params'] and not r['params'][kk]:
                        del r['params'][kk]
    if per_degree_impairments:
        # ROADMs of a variety with impairment profiles: some add / drop / express crossings name another profile of the
        # right kind (ids 4, 5, 3) than the default first one; only degrees that auto-design leaves in place
        profiled = {r.get('type_variety') for r in eq_json['Roadm'] if r.get('roadm-path-impairments')}
        for i, r in enumerate(roadms):
            if r.get('type_variety') not in profiled:
                continue
            outs = [c['to_node'] for c in connections if c['from_node'] == r['uid']
                    and c['to_node'].startswith(('booster ', 'fused '))]
            ins = [c['from_node'] for c in connections if c['to_node'] == r['uid']
                   and c['from_node'].startswith(('preamp ', 'fused ', 'booster ', 'amp '))]
            entries = []
            for d in outs:
                if draw(st.booleans()):
                    entries.append({'from_degree': f'trx R{i}', 'to_degree': d, 'impairment_id': draw(st.sampled_from([1, 4]))})
            for d in ins:
                if draw(st.booleans()):
                    entries.append({'from_degree': d, 'to_degree': f'trx R{i}', 'impairment_id': draw(st.sampled_from([2, 5]))})
            if entries:
                r['params']['per_degree_impairments'] = entries
    topo = {'elements': elements, 'connections': connections}
    truth = {'n': k, 'links': [list(l) for l in links]}
    return topo, truth


def build_network(eq_json, topo_json):
    """fresh equipment dict + fresh DiGraph from JSON (network_from_json mutates its input: deep copies)"""
    import copy
    from gnpy.tools.json_io import network_from_json
    equipment = load_equipment(eq_json)
    network = network_from_json(copy.deepcopy(topo_json), equipment)
    return equipment, network


def reset_sim_params(params=None):
    from gnpy.core.parameters import SimParams
    SimParams.set_params(params or {})
