"""Generator of small star networks around one ROADM under test (C06).

    trx R0 <-> roadm R0 (centre, carries all generated settings)
    for each link i = 1..k:   roadm R0 -> [head] -> fiber L<i>.ab.0 -> [tail'] -> roadm R<i>   (egress degree i)
                              roadm R<i> -> [head'] -> fiber L<i>.ba.0 -> [tail] -> roadm R0   (ingress degree i)
    head (what follows the centre): 'edfa'  user-placed booster  'booster L<i>.ab'
                                    'fused' Fused                 'fused L<i>.ab.b'   (docs: no booster wanted)
                                    'auto'  nothing: auto-design inserts the booster (uid unknown before design)
    tail (what precedes the centre): 'edfa' 'preamp L<i>.ba' | 'fused' 'fused L<i>.ba.p' | 'auto'

The uid of the element immediately adjacent to the ROADM *is* the degree name (docs/json.rst, Roadm instance), so
per-degree settings are only generated for 'edfa'/'fused' ends and for the transceiver, whose uids are known before
design. Every uid embeds 'L<i>.<ab|ba>' so that the degree of an auto-inserted amplifier can be recognised after
design with netgen.link_of().
"""
from hypothesis import strategies as st

from pbt.gens import netgen

BAND = (191.3e12, 196.1e12)
POLICY_KEYS = ('target_pch_out_db', 'target_psd_out_mWperGHz', 'target_out_mWperSlotWidth')
DEGREE_KEY = {'target_pch_out_db': 'per_degree_pch_out_db', 'target_psd_out_mWperGHz': 'per_degree_psd_out_mWperGHz',
              'target_out_mWperSlotWidth': 'per_degree_psd_out_mWperSlotWidth'}
PATH_KEY = {'express': 'roadm-express-path', 'add': 'roadm-add-path', 'drop': 'roadm-drop-path'}


def _meta(city):
    return {'location': {'latitude': 0, 'longitude': 0, 'city': city, 'region': ''}}


@st.composite
def policy(draw, zero='never'):
    """(key, value); zero: 'never' | 'allowed' | 'always' (a 0 dBm constant-power target)"""
    if zero == 'always':
        return 'target_pch_out_db', 0
    k, v = draw(netgen.equalization(allow_zero=(zero == 'allowed')))
    return k, v


@st.composite
def impairment_profiles(draw, sparse=False):
    """roadm-path-impairments list: 0-2 profiles per path type, ids in generated order, 1-3 frequency ranges each
    (an L-band range that matches nothing may come first; the SI band is covered entirely, whole or split in two).
    sparse=True: ranges may omit roadm-pmd / roadm-pdl as the example of docs/json.rst does."""
    kinds = []
    for kind in ('express', 'add', 'drop'):
        kinds += [kind] * draw(st.integers(0, 2))
    kinds = draw(st.permutations(kinds))
    ids = draw(st.permutations(list(range(len(kinds) + 2))))[:len(kinds)]
    out = []
    for pid, kind in zip(ids, kinds):
        def one_range(lo, hi):
            r = {'frequency-range': {'lower-frequency': lo, 'upper-frequency': hi}}
            ml = draw(st.sampled_from([None, 0, 6.0, 11.5, 16.5, 3.25]))
            if ml is not None:
                r['roadm-maxloss'] = ml
            if not (sparse and draw(st.booleans())):
                r['roadm-pmd'] = draw(st.sampled_from([0, 1e-12, 5e-13]))
            if not (sparse and draw(st.booleans())):
                r['roadm-pdl'] = draw(st.sampled_from([0, 0.3, 0.5]))
            if draw(st.booleans()):
                r['roadm-cd'] = 0
                r['roadm-inband-crosstalk'] = 0
            if kind != 'express':
                r['roadm-osnr'] = draw(st.sampled_from([41, 35, 30]))
            return r
        ranges = []
        if draw(st.integers(0, 3)) == 0:
            ranges.append(one_range(186.3e12, 190.1e12))
        if draw(st.booleans()):
            mid = draw(st.sampled_from([193.7e12, 192.0e12, 195.0125e12]))
            ranges += [one_range(BAND[0], mid), one_range(mid, BAND[1])]
        else:
            ranges.append(one_range(BAND[0], BAND[1]))
        out.append({'roadm-path-impairments-id': pid, PATH_KEY[kind]: ranges})
    return out


@st.composite
def roadm_library(draw, zero='never', sparse=False):
    """[default entry, 'det' entry with detailed impairments, 'alt' entry]; each with exactly one policy"""
    def one(name, z):
        k, v = draw(policy(z))
        e = {k: v, 'add_drop_osnr': draw(st.sampled_from([38, 35, 30, 100])),
             'pmd': draw(st.sampled_from([0, 1e-12, 3e-12])), 'pdl': draw(st.sampled_from([0, 0.5, 1.5])),
             'restrictions': {'preamp_variety_list': [], 'booster_variety_list': []}}
        if name:
            e['type_variety'] = name
        return e
    default = one(None, zero)
    det = one('det', zero)
    det['roadm-path-impairments'] = draw(impairment_profiles(sparse=sparse))
    alt = one('alt', zero)
    return [default, det, alt]


def _amp(uid):
    return {'uid': uid, 'type': 'Edfa', 'type_variety': '', 'metadata': _meta(uid),
            'operational': {'gain_target': None, 'delta_p': None, 'tilt_target': 0, 'out_voa': None}}


def _fused(uid, loss):
    return {'uid': uid, 'type': 'Fused', 'params': {'loss': loss}, 'metadata': _meta(uid)}


@st.composite
def star(draw, roadm_lib, zero='never', force_variety=None, overrides=True):
    """topology JSON + description of the centre's degrees.
    zero: may the centre's *node-level* element policy be 0 dBm: 'never' | 'allowed' | 'covered' (only when every line
    degree carries its own override) | 'always' (element-level 0 dBm)"""
    k = draw(st.integers(1, 4))
    elements, connections = [], []
    for i in range(k + 1):
        elements.append({'uid': f'trx R{i}', 'type': 'Transceiver', 'metadata': _meta(f'R{i}')})
        elements.append({'uid': f'roadm R{i}', 'type': 'Roadm', 'metadata': _meta(f'R{i}'), 'params': {}})
        connections.append({'from_node': f'trx R{i}', 'to_node': f'roadm R{i}'})
        connections.append({'from_node': f'roadm R{i}', 'to_node': f'trx R{i}'})
    centre = elements[1]
    variety = force_variety or draw(st.sampled_from([None, 'det', 'det', 'alt']))
    if variety:
        centre['type_variety'] = variety
    degrees = []
    for i in range(1, k + 1):
        head = draw(st.sampled_from(['edfa', 'edfa', 'fused', 'auto']))
        tail = draw(st.sampled_from(['edfa', 'edfa', 'fused', 'auto']))
        out_seq, in_seq = [f'roadm R0'], [f'roadm R{i}']
        egress = ingress = None
        if head == 'edfa':
            egress = f'booster L{i}.ab'
            elements.append(_amp(egress))
        elif head == 'fused':
            egress = f'fused L{i}.ab.b'
            elements.append(_fused(egress, draw(st.sampled_from([0, 0.5, 1]))))
        if egress:
            out_seq.append(egress)
        for d, seq in (('ab', out_seq), ('ba', in_seq)):
            uid = f'fiber L{i}.{d}.0'
            elements.append({'uid': uid, 'type': 'Fiber', 'type_variety': 'SSMF', 'metadata': _meta(uid),
                             'params': {'length': draw(st.sampled_from([20.0, 45.5, 60.0, 80.0, 100.0])), 'length_units': 'km',
                                        'loss_coef': draw(st.sampled_from([0.2, 0.22, 0.25])), 'con_in': 0.5, 'con_out': 0.5,
                                        'att_in': 0}})
            seq.append(uid)
        if tail == 'edfa':
            ingress = f'preamp L{i}.ba'
            elements.append(_amp(ingress))
        elif tail == 'fused':
            ingress = f'fused L{i}.ba.p'
            elements.append(_fused(ingress, draw(st.sampled_from([0, 0.5, 1]))))
        if ingress:
            in_seq.append(ingress)
        out_seq.append(f'roadm R{i}')
        in_seq.append('roadm R0')
        for seq in (out_seq, in_seq):
            for a, b in zip(seq[:-1], seq[1:]):
                connections.append({'from_node': a, 'to_node': b})
        degrees.append({'link': i, 'egress': egress, 'ingress': ingress})
    params = centre['params']
    # per-degree overrides (any kind, independent of the node policy) on degrees whose name is known
    named = [d['egress'] for d in degrees if d['egress']]
    covered = overrides and named and len(named) == k and draw(st.booleans())
    if overrides:
        for uid in named:
            if covered or draw(st.integers(0, 2)) == 0:
                kk, vv = draw(policy('allowed'))
                params.setdefault(DEGREE_KEY[kk], {})[uid] = vv
        if draw(st.integers(0, 7)) == 0:
            kk, vv = draw(policy('allowed'))
            params.setdefault(DEGREE_KEY[kk], {})['trx R0'] = vv          # the drop port is an adjacent element too
    # node-level policy on the element (replaces the library default, possibly of another kind)
    if zero == 'always':
        params['target_pch_out_db'] = 0
    elif draw(st.booleans()):
        kk, vv = draw(policy('allowed' if (zero == 'allowed' or (zero == 'covered' and covered)) else 'never'))
        params[kk] = vv
    # per-degree impairment ids (right path type only: docs forbid the wrong one)
    lib = next(e for e in roadm_lib if e.get('type_variety') == variety) if variety else roadm_lib[0]
    prof = {'express': [], 'add': [], 'drop': []}
    for p in lib.get('roadm-path-impairments', []):
        for kind, key in PATH_KEY.items():
            if key in p:
                prof[kind].append(p['roadm-path-impairments-id'])
    per = []

    def pick(ids):
        # prefer a profile that is not the first one of its kind (the first is what applies when nothing is named), and the
        # id 0 when there is one
        later = ids[1:]
        if 0 in later and draw(st.booleans()):
            return 0
        return draw(st.sampled_from(later if later and draw(st.booleans()) else ids))
    ins = [d['ingress'] for d in degrees if d['ingress']]
    for src in ins:
        for dst in named:
            if prof['express'] and draw(st.integers(0, 2)) == 0:
                per.append({'from_degree': src, 'to_degree': dst, 'impairment_id': pick(prof['express'])})
        if prof['drop'] and draw(st.integers(0, 2)) == 0:
            per.append({'from_degree': src, 'to_degree': 'trx R0', 'impairment_id': pick(prof['drop'])})
    for dst in named:
        if prof['add'] and draw(st.integers(0, 2)) == 0:
            per.append({'from_degree': 'trx R0', 'to_degree': dst, 'impairment_id': pick(prof['add'])})
    if per:
        params['per_degree_impairments'] = per
    return {'elements': elements, 'connections': connections}, degrees


def line_amps():
    """two plain design-allowed amplifiers with wide gain ranges: the line design never fails"""
    return [
        {'type_variety': 'A0', 'type_def': 'variable_gain', 'gain_flatmax': 26, 'gain_min': 15, 'p_max': 23, 'nf_min': 6,
         'nf_max': 10, 'out_voa_auto': False, 'allowed_for_design': True},
        {'type_variety': 'A1', 'type_def': 'variable_gain', 'gain_flatmax': 16, 'gain_min': 8, 'p_max': 23, 'nf_min': 6.5,
         'nf_max': 11, 'out_voa_auto': False, 'allowed_for_design': True},
    ]


def trx_lib():
    return [{'type_variety': 'T0', 'frequency': {'min': BAND[0], 'max': BAND[1]},
             'mode': [{'format': 'm0', 'baud_rate': 32e9, 'OSNR': 12, 'bit_rate': 100e9, 'roll_off': 0.15, 'tx_osnr': 40,
                       'min_spacing': 50e9, 'cost': 1}]}]
