"""Service-file generators (legacy JSON 'path-request' / 'synchronization') and routing ground truth."""
from hypothesis import strategies as st


def request_json(rid, src, dst, trx_type='T0', trx_mode=None, spacing=50e9, nb_channel=None, power=None,
                 path_bandwidth=100e9, nm=None, include=None, bidir=False, tx_power=None, index_style=0):
    """One legacy path-request. include = [(uid, 'LOOSE'|'STRICT'), ...]; nm = [(N, M), ...] with None allowed.
    index_style: how the route objects are numbered and listed (the order of the route is the numeric order of `index`):
    0 = 0,1,2.. listed in order; 1 = sparse numbering 2,6,10,14.. (crosses the one/two digit boundary); 2 = sparse and listed
    in reverse; 3 = 0,1,2.. listed in reverse"""
    te = {'technology': 'flexi-grid', 'trx_type': trx_type, 'trx_mode': trx_mode,
          'effective-freq-slot': [{'N': n, 'M': m} for n, m in (nm or [(None, None)])],
          'spacing': spacing, 'max-nb-of-channel': nb_channel, 'output-power': power, 'path_bandwidth': path_bandwidth}
    if tx_power is not None:
        te['tx_power'] = tx_power
    req = {'request-id': str(rid), 'source': src, 'destination': dst, 'src-tp-id': src, 'dst-tp-id': dst,
           'bidirectional': bool(bidir), 'path-constraints': {'te-bandwidth': te}}
    if include:
        objs = [
            {'explicit-route-usage': 'route-include-ero', 'index': (2 + 4 * i) if index_style in (1, 2) else i,
             'num-unnum-hop': {'node-id': uid, 'link-tp-id': 'link-tp-id is not used', 'hop-type': hop}}
            for i, (uid, hop) in enumerate(include)]
        if index_style in (2, 3):
            objs.reverse()
        req['explicit-route-objects'] = {'route-object-include-exclude': objs}
    return req


def sync_json(sid, request_ids):
    return {'synchronization-id': str(sid),
            'svec': {'relaxable': False, 'disjointness': 'node link', 'request-id-number': [str(r) for r in request_ids]}}


# ---------------------------------------------------------------------------------------------- ground truth

class Truth:
    """ROADM-level multigraph of a generated topology + element-level expansion read from the designed network."""

    def __init__(self, truth, network):
        from gnpy.core import elements
        self.n = truth['n']
        self.links = [tuple(l) for l in truth['links']]
        self.nodes = {x.uid: x for x in network.nodes()}
        self.network = network
        self.chain = {}    # (link id, dir) -> [uids of line elements in order]
        self.length = {}   # (link id, dir) -> total fibre length in m
        for lid, (a, b) in enumerate(self.links):
            for d, (s, t) in (('ab', (a, b)), ('ba', (b, a))):
                r = self.nodes[f'roadm R{s}']
                first = [x for x in network.successors(r) if not isinstance(x, elements.Transceiver)
                         and self._lk(x.uid) == (lid, d)]
                if len(first) != 1:
                    raise ValueError(f'cannot locate link {lid}.{d} after design')
                seq, node = [], first[0]
                while not isinstance(node, (elements.Roadm, elements.Transceiver)):
                    seq.append(node.uid)
                    node = next(network.successors(node))
                if node.uid != f'roadm R{t}':
                    raise ValueError(f'link {lid}.{d} does not end at roadm R{t}')
                self.chain[(lid, d)] = seq
                self.length[(lid, d)] = sum(self.nodes[u].params.length for u in seq
                                            if isinstance(self.nodes[u], elements.Fiber))

    @staticmethod
    def _lk(uid):
        from pbt.gens.netgen import link_of
        return link_of(uid)

    def out_edges(self, site):
        for lid, (a, b) in enumerate(self.links):
            if a == site:
                yield lid, 'ab', b
            if b == site:
                yield lid, 'ba', a

    def simple_paths(self, src, dst, max_paths=20000):
        """all simple ROADM-level paths src->dst as lists of (link id, dir); own DFS"""
        out = []
        stack = [(src, [], {src})]
        while stack:
            site, edges, seen = stack.pop()
            if site == dst:
                out.append(edges)
                if len(out) >= max_paths:
                    break
                continue
            for lid, d, nxt in self.out_edges(site):
                if nxt not in seen:
                    stack.append((nxt, edges + [(lid, d)], seen | {nxt}))
        return out

    def expand(self, src, edges):
        """element uid list of a ROADM-level path including both transceivers"""
        uids = [f'trx R{src}', f'roadm R{src}']
        site = src
        for lid, d in edges:
            a, b = self.links[lid]
            site = b if d == 'ab' else a
            uids.extend(self.chain[(lid, d)])
            uids.append(f'roadm R{site}')
        uids.append(f'trx R{site}')
        return uids

    def fibre_length(self, edges):
        return sum(self.length[e] for e in edges)

    def sites_of(self, uids):
        return [int(u[len('roadm R'):]) for u in uids if u.startswith('roadm R')]

    def links_of(self, uids):
        """set of undirected link ids crossed by an element path"""
        out = set()
        for u in uids:
            lk = self._lk(u)
            if lk is not None:
                out.add(lk[0])
        return out


def is_subsequence(items, seq):
    """items appear in seq in the same order (each item once)"""
    pos = 0
    for it in items:
        try:
            pos = seq.index(it, pos) + 1
        except ValueError:
            return False
    return True


# ---------------------------------------------------------------------------------------------- strategies

@st.composite
def include_list(draw, truth, k_max=3):
    """include items described symbolically (resolved after design): ('roadm', i) | ('line', lid, dir, frac) |
    ('trx', i) | ('bogus',) each with a hop type"""
    n, links = truth['n'], truth['links']
    items = []
    for _ in range(draw(st.integers(0, k_max))):
        kind = draw(st.sampled_from(['roadm', 'roadm', 'line', 'line', 'bogus']))
        if kind == 'roadm':
            it = ['roadm', draw(st.integers(0, n - 1))]
        elif kind == 'line':
            it = ['line', draw(st.integers(0, len(links) - 1)), draw(st.sampled_from(['ab', 'ba'])),
                  draw(st.floats(0, 0.999))]
        else:
            it = ['bogus']
        hop = 'LOOSE' if kind == 'bogus' else draw(st.sampled_from(['LOOSE', 'STRICT', 'STRICT']))
        items.append(it + [hop])
    return items


def resolve_include(items, gt: Truth, src=None, dst=None):
    """symbolic include list -> [(uid, hop)]"""
    out = []
    for it in items:
        hop = it[-1]
        if it[0] == 'roadm':
            out.append((f'roadm R{it[1]}', hop))
        elif it[0] == 'line':
            seq = gt.chain[(it[1], it[2])]
            out.append((seq[int(it[3] * len(seq))], hop))
        elif it[0] == 'trx':
            out.append((f'trx R{it[1]}', hop))
        else:
            out.append(('no such node', hop))
    return out
