"""Spectrum generators (DESIGN §2.8).  A *comb* is a JSON list of channel dicts:
   {"f": Hz, "slot": Hz, "baud": Hz, "roll": float, "p_dbm": float, "tx_osnr": dB, "dp": dB, "label": str}
Frequencies and slot widths are integer multiples of 1 MHz with even slot widths, so that every slot edge
f ± slot/2 is exactly representable: a comb built with zero guard band is valid (touching, not overlapping)
without depending on floating-point rounding. Built by construction (walk up in frequency), never by rejection.
"""
from hypothesis import strategies as st

MHZ = 1_000_000

# slot widths in MHz (even numbers): ITU multiples of 12.5 GHz and arbitrary ones
_itu_slots = st.sampled_from([25000, 37500, 50000, 62500, 75000, 87500, 100000, 112500, 150000])
_any_slots = st.integers(6000, 80000).map(lambda x: 2 * x)
slot_mhz = st.one_of(_itu_slots, _itu_slots, _any_slots)
gap_mhz = st.one_of(st.just(0), st.just(0), st.integers(0, 2000), st.integers(0, 400000))


@st.composite
def channel_shape(draw, power=(-30.0, 10.0)):
    slot = draw(slot_mhz)
    frac = draw(st.one_of(st.just(1.0), st.floats(0.3, 1.0)))
    baud = float(int(slot * frac)) * MHZ
    return {
        'slot': float(slot * MHZ),
        'baud': min(baud, float(slot * MHZ)),
        'roll': draw(st.sampled_from([0.0, 0.15, 0.1, 0.2])),
        'p_dbm': draw(st.one_of(st.just(0.0), st.floats(power[0], power[1]))),
        'tx_osnr': draw(st.sampled_from([100.0, 40.0, 35.0, 45.0, 38.5])),
        'dp': draw(st.one_of(st.just(0.0), st.floats(-3.0, 3.0))),
        'label': draw(st.sampled_from(['A', 'B', '32G', 'mode 1'])),
    }


@st.composite
def comb(draw, min_ch=1, max_ch=60, f_start=(186_000_000, 196_500_000), power=(-30.0, 10.0),
         types_max=4, f_stop=None):
    """A valid WDM comb: 1..max_ch channels of up to `types_max` channel types, walking up from f_start."""
    n = draw(st.integers(min_ch, max_ch))
    ntypes = draw(st.integers(1, types_max))
    types = [draw(channel_shape(power)) for _ in range(ntypes)]
    uniform = draw(st.booleans())
    edge = draw(st.integers(*f_start))  # MHz, lower edge of the first slot
    per_channel_power = draw(st.booleans())
    chans = []
    for i in range(n):
        t = dict(types[0] if uniform else types[draw(st.integers(0, ntypes - 1))])
        g = 0 if (uniform and i) else draw(gap_mhz)
        slot_m = int(t['slot'] // MHZ)
        f = edge + g + slot_m // 2
        if f_stop is not None and f + slot_m // 2 > f_stop:
            break
        t['f'] = float(f * MHZ)
        if per_channel_power:
            t['p_dbm'] = draw(st.floats(power[0], power[1]))
        chans.append(t)
        edge = f + slot_m // 2
    if not chans:
        t = dict(types[0])
        t['f'] = float((edge + int(t['slot'] // MHZ) // 2) * MHZ)
        chans.append(t)
    # presented in a generated permutation (channel order must be irrelevant)
    perm = draw(st.permutations(list(range(len(chans)))))
    return [chans[i] for i in perm]


def comb_to_si(chans):
    """Build the real SpectralInformation from a comb (goes through the public constructor helper)."""
    from gnpy.core.info import create_arbitrary_spectral_information
    from gnpy.core.utils import dbm2watt
    import numpy as np
    p = [float(dbm2watt(c['p_dbm'])) for c in chans]
    # one comb in three is handed over with integer-typed frequency / baud rate / slot width arrays: what a spectrum built
    # from JSON integers (191300000000000 rather than 191.3e12) looks like; derived from the comb itself (no own randomness)
    ints = (int(chans[0]['f'] // MHZ) + len(chans)) % 3 == 0 and \
        all(float(c[k]).is_integer() for c in chans for k in ('f', 'baud', 'slot'))
    kind = np.int64 if ints else float
    return create_arbitrary_spectral_information(
        frequency=np.array([c['f'] for c in chans], dtype=kind), pch=np.array(p),
        baud_rate=np.array([c['baud'] for c in chans], dtype=kind), slot_width=np.array([c['slot'] for c in chans], dtype=kind),
        roll_off=np.array([c['roll'] for c in chans]), tx_osnr=np.array([c['tx_osnr'] for c in chans]),
        tx_power=np.array(p), delta_pdb_per_channel=np.array([c['dp'] for c in chans]),
        label=np.array([c['label'] for c in chans]))


def comb_to_carriers(chans):
    """dict frequency -> Carrier as used by PathRequest.initial_spectrum (insertion order = presented order)."""
    from gnpy.core.info import Carrier
    from gnpy.core.utils import dbm2watt
    # one carrier list in three is written with integers (see comb_to_si)
    ints = bool(chans) and (int(chans[0]['f'] // MHZ) + len(chans)) % 3 == 0 and \
        all(float(c[k]).is_integer() for c in chans for k in ('f', 'baud', 'slot'))
    num = int if ints else float
    return {num(c['f']): Carrier(delta_pdb=c['dp'], baud_rate=num(c['baud']), slot_width=num(c['slot']), roll_off=c['roll'],
                                 tx_osnr=c['tx_osnr'], tx_power=float(dbm2watt(c['p_dbm'])), label=c['label'])
            for c in chans}
