"""Workbook models for C20: generation, rendering to cell matrices, .xlsx writing and an xlrd-compatible stub.

A *model* is plain JSON:

  {'sites':   [{'city', 'state', 'country', 'region', 'lat', 'lon', 'type', 'booster', 'preamp'}, ...],
   'links':   [{'a', 'z', 'east': [dist, fiber, lineic, con_in, con_out, pmd, cable], 'west': [7 cells]}, ...],
   'eqpt':    None | [{'a', 'z', 'east': [amp type, att_in, amp gain, tilt, att_out, delta p], 'west': [6 cells]}],
   'eqpt_cols': 12 | 14        (12 = historical layout without the 'delta p' columns),
   'roadms':  None | [{'a', 'z', 'power', 'variety', 'from', 'ids'}],
   'service': None | [{'id', 'src', 'dst', 'trx', 'mode', 'spacing', 'power', 'nch', 'disjoint', 'path', 'loose', 'bw'}],
   'ghost': n                  (n trailing empty rows in every sheet),
   'header_edit': None | [sheet, old header text, new header text],
   'expect': 'valid' | 'invalid:<rule>' | 'shape:<name>', ...}

None is an empty cell everywhere.  The layout (verified on the shipped fixtures): Nodes header on row index 4, data
from 5; Links / Eqpt group headers ('...east...' / '...west...') on row 3, column headers on row 4, data from 5;
Roadms and Service headers on row 4, data from 5.
"""
import contextlib

from hypothesis import strategies as st

# names chosen so that none is a substring of another (the route-name correction of service_sheet matches by
# substring; prefix-related names are outside what this check models)
CITY_POOL = ['Lannion_CAS', 'Corlay', 'St-Brieuc', 'Rennes STA', 'node6', 'ALB', 'CHA_3', 'site 1', 'Quimper',
             'Brest_KLA', 'Vannes', 'Ploermel', 'b', 'Ile d Yeu']
FIBER_TYPES = ['SSMF', 'NZDF', 'LOF']
AMP_TYPES = ['std_low_gain', 'std_medium_gain', 'std_high_gain', 'high_power', 'std_fixed_gain']
OTHER_TYPES = ['OLA', 'amp', 'xyz']
TRX = {'Voyager': ['mode 1', 'mode 3', 'mode 2', 'mode 4'], 'vendorA_trx-type1': ['mode 1', 'mode 2']}

NODES_HDR = ['City', 'State', 'Country', 'Region', 'Latitude', 'Longitude', 'Type', 'Booster_restriction',
             'Preamp_restriction']
LINK_SUB = ['Distance (km)', 'Fiber type', 'lineic att', 'Con_in', 'Con_out', 'PMD', 'Cable id']
EQPT_SUB14 = ['amp type', 'att_in', 'amp gain', 'tilt', 'att_out', 'delta p']
EQPT_SUB12 = ['amp type', 'att_in', 'amp gain', 'tilt', 'att_out']
ROADMS_HDR = ['Node A', 'Node Z', 'per degree target power (dBm)', 'type_variety', 'from degrees',
              'from degree to degree impairment id']
SERVICE_HDR = ['route id', 'Source', 'Destination', 'TRX type', 'Mode', 'System: spacing',
               'System: input power (dBm)', 'System: nb of channels', 'routing: disjoint from', 'routing: path',
               'routing: is loose?', 'path bandwidth']
SERVICE_KEYS = ['id', 'src', 'dst', 'trx', 'mode', 'spacing', 'power', 'nch', 'disjoint', 'path', 'loose', 'bw']


# ------------------------------------------------------------------------------------------------ rendering

def render(model):
    """model -> {sheet name: rectangular list of rows of cells (None = empty)} in workbook order"""
    sheets = {}
    ghost = int(model.get('ghost') or 0)

    blank = bool(model.get('blank_rows'))

    def pad(rows, width, first_data=5):
        out = [list(r) + [None] * (width - len(r)) for r in rows]
        if blank and len(out) > first_data + 1:
            # an empty line left between two blocks of data rows (rows whose first cell is empty are skipped by the readers)
            out.insert(first_data + 1, [None] * width)
        out += [[None] * width for _ in range(ghost)]
        return out

    rows = [[None] * 9 for _ in range(4)]
    rows[3][7] = 'list of amps type_variety separated by | . amp type_variety must be defined in eqpt_config.json'
    rows.append(list(NODES_HDR))
    for s in model['sites']:
        rows.append([s['city'], s.get('state'), s.get('country'), s.get('region'), s.get('lat'), s.get('lon'),
                     s.get('type'), s.get('booster'), s.get('preamp')])
    sheets['Nodes'] = pad(rows, 9)

    rows = [[None] * 16 for _ in range(3)]
    rows[0][0] = 'example mesh network'
    rows[2][2] = 'cable id for SRG interest'
    grp = [None] * 16
    grp[2], grp[9] = 'east cable (from a to z)', 'west (from z to a'
    rows.append(grp)
    rows.append(['Node A', 'Node Z'] + LINK_SUB + LINK_SUB)
    for lk in model['links']:
        rows.append([lk['a'], lk['z']] + list(lk['east']) + list(lk['west']))
    sheets['Links'] = pad(rows, 16)

    if model.get('roadms') is not None:
        rows = [[None] * 6 for _ in range(4)]
        rows[0][0], rows[0][1] = 'OPTIONAL', 'detail of per degree  target power'
        rows.append(list(ROADMS_HDR))
        for r in model['roadms']:
            rows.append([r['a'], r['z'], r.get('power'), r.get('variety'), r.get('from'), r.get('ids')])
        sheets['Roadms'] = pad(rows, 6)

    if model.get('eqpt') is not None:
        ncol = model.get('eqpt_cols', 14)
        sub = EQPT_SUB14 if ncol == 14 else EQPT_SUB12
        k = len(sub)
        rows = [[None] * ncol for _ in range(3)]
        rows[0][0] = 'OPTIONAL'
        grp = [None] * ncol
        grp[2], grp[2 + k] = 'Node a egress/east amp (from a to z)', 'Node a ingress/west amp (from z to a)'
        rows.append(grp)
        rows.append(['Node A', 'Node Z'] + sub + sub)
        for e in model['eqpt']:
            rows.append([e['a'], e['z']] + list(e['east'])[:k] + list(e['west'])[:k])
        sheets['Eqpt'] = pad(rows, ncol)

    if model.get('service') is not None:
        rows = [[None] * 12 for _ in range(4)]
        rows[3][8], rows[3][9] = 'optional', 'Optional  (list of nodes to be crossed)'
        rows[3][10] = 'Optional - Yes means relaxes path constraint'
        rows.append(list(SERVICE_HDR))
        for s in model['service']:
            rows.append([s.get(k) for k in SERVICE_KEYS])
        sheets['Service'] = pad(rows, 12)

    edit = model.get('header_edit')
    if edit:
        sheet, old, new = edit
        for row in sheets[sheet][3:5]:
            for i, v in enumerate(row):
                if v == old:
                    row[i] = new
    return sheets


def write_xlsx(sheets, path):
    """real .xlsx through openpyxl; empty trailing rows are kept as formatted-but-empty ('ghost') rows"""
    from openpyxl import Workbook
    wb = Workbook()
    wb.remove(wb.active)
    for name, rows in sheets.items():
        ws = wb.create_sheet(name)
        for r, row in enumerate(rows, start=1):
            empty = all(v is None for v in row)
            for c, v in enumerate(row, start=1):
                if v is not None:
                    ws.cell(row=r, column=c, value=v)
                elif empty and r > 5:
                    ws.cell(row=r, column=c).number_format = '0.00'
    wb.save(path)
    wb.close()


# ------------------------------------------------------------------------------------------------ xlrd stub

class StubCell:
    """the two attributes of xlrd.sheet.Cell the converter reads"""
    __slots__ = ('value', 'ctype')

    def __init__(self, v):
        if v is None:
            self.value, self.ctype = '', 0          # XL_CELL_EMPTY
        elif isinstance(v, str):
            self.value, self.ctype = v, 1           # XL_CELL_TEXT
        else:
            self.value, self.ctype = float(v), 2    # XL_CELL_NUMBER: xlrd only knows floats

    def __repr__(self):
        return f'StubCell({self.value!r})'


class StubSheet:
    def __init__(self, name, rows):
        self.name = name
        self._rows = [[StubCell(v) for v in row] for row in rows]
        self.nrows = len(self._rows)
        self.ncols = max((len(r) for r in self._rows), default=0)

    def row(self, rowx):
        return self._rows[rowx]                     # IndexError past the end, like xlrd

    def row_slice(self, rowx, start_colx=0, end_colx=None):
        return self._rows[rowx][start_colx:end_colx]

    def cell(self, rowx, colx):
        return self._rows[rowx][colx]


class StubBook:
    def __init__(self, sheets):
        self._sheets = [StubSheet(n, rows) for n, rows in sheets.items()]
        self.nsheets = len(self._sheets)

    def sheet_by_name(self, name):
        from xlrd.biffh import XLRDError
        for s in self._sheets:
            if s.name == name:
                return s
        raise XLRDError(f'No sheet named <{name!r}>')

    def sheet_by_index(self, i):
        return self._sheets[i]

    def sheet_names(self):
        return [s.name for s in self._sheets]


@contextlib.contextmanager
def stubbed_xls(sheets, path):
    """For the duration of the block, opening `path` (a *.xls name that does not exist on disk) through the
    converter or the service reader yields the in-memory xlrd-like workbook; everything else is opened normally."""
    import gnpy.tools.convert as convert
    import gnpy.tools.service_sheet as service_sheet
    import gnpy.tools.xls_utils as xls_utils
    real = xls_utils.generic_open_workbook
    mods = [m for m in (convert, service_sheet) if getattr(m, 'generic_open_workbook', None) is not None]
    saved = [(m, m.generic_open_workbook) for m in mods]

    def fake(file_path):
        if str(file_path) == str(path):
            return StubBook(sheets), False
        return real(file_path)
    try:
        for m in mods:
            m.generic_open_workbook = fake
        yield
    finally:
        for m, f in saved:
            m.generic_open_workbook = f


def read_xls_matrix(path):
    """cell matrices of a real .xls read with xlrd directly (harness side, for the shipped fixtures)"""
    import xlrd
    wb = xlrd.open_workbook(str(path))
    out = {}
    for sh in wb.sheets():
        rows = []
        for r in range(sh.nrows):
            rows.append([None if c.ctype in (0, 6) else c.value for c in sh.row(r)])
        out[sh.name] = rows
    return out


def read_xlsx_matrix(path):
    from openpyxl import load_workbook
    wb = load_workbook(str(path), read_only=True, data_only=True)
    out = {}
    for ws in wb.worksheets:
        out[ws.title] = [[(None if c.value == '' else c.value) for c in row] for row in ws.rows]
    wb.close()
    return out


def model_from_matrix(sheets):
    """Inverse of render() for workbooks using the standard column order (the shipped fixtures)."""
    def cells(row, n):
        row = list(row) + [None] * n
        return row[:n]

    def data(name):
        rows = sheets[name][5:]
        return [r for r in rows if r and r[0] is not None]

    model = {'sites': [], 'links': [], 'eqpt': None, 'roadms': None, 'service': None, 'ghost': 0,
             'header_edit': None, 'expect': 'valid'}
    for r in data('Nodes'):
        c = cells(r, 9)
        model['sites'].append({'city': c[0], 'state': c[1], 'country': c[2], 'region': c[3], 'lat': c[4], 'lon': c[5],
                               'type': c[6], 'booster': c[7], 'preamp': c[8]})
    for r in data('Links'):
        c = cells(r, 16)
        model['links'].append({'a': c[0], 'z': c[1], 'east': c[2:9], 'west': c[9:16]})
    if 'Eqpt' in sheets:
        hdr = [h for h in sheets['Eqpt'][4] if h is not None]
        ncol = 14 if 'delta p' in hdr else 12
        k = (ncol - 2) // 2
        model['eqpt_cols'] = ncol
        model['eqpt'] = []
        for r in data('Eqpt'):
            c = cells(r, ncol)
            model['eqpt'].append({'a': c[0], 'z': c[1], 'east': (c[2:2 + k] + [None])[:6],
                                  'west': (c[2 + k:2 + 2 * k] + [None])[:6]})
    if 'Roadms' in sheets:
        model['roadms'] = []
        for r in data('Roadms'):
            c = cells(r, 6)
            model['roadms'].append({'a': c[0], 'z': c[1], 'power': c[2], 'variety': c[3], 'from': c[4], 'ids': c[5]})
    if 'Service' in sheets:
        model['service'] = []
        for r in data('Service'):
            c = cells(r, 12)
            model['service'].append(dict(zip(SERVICE_KEYS, c)))
    return model


# ------------------------------------------------------------------------------------------------ model facts

def degrees(model):
    deg = {s['city']: 0 for s in model['sites']}
    for lk in model['links']:
        for end in (lk['a'], lk['z']):
            if end in deg:
                deg[end] += 1
    return deg


def effective_types(model):
    """Documented rule (docs/excel.rst, convert.py module doc): 'ROADM' and 'FUSED' are taken as written; 'ILA',
    an empty cell or any other string mean 'ILA if the node degree is 2, ROADM otherwise'."""
    deg = degrees(model)
    out = {}
    for s in model['sites']:
        t = s.get('type')
        if t in ('ROADM', 'FUSED'):
            out[s['city']] = t
        else:
            out[s['city']] = 'ILA' if deg[s['city']] == 2 else 'ROADM'
    return out


def neighbours(model):
    nb = {s['city']: [] for s in model['sites']}
    for lk in model['links']:
        if lk['a'] in nb and lk['z'] in nb:
            nb[lk['a']].append(lk['z'])
            nb[lk['z']].append(lk['a'])
    return nb


# ------------------------------------------------------------------------------------------------ strategies

def _num(lo, hi, digits=3):
    scale = 10 ** digits
    return st.integers(int(lo * scale), int(hi * scale)).map(lambda i: i / scale)


def _opt(strategy, p_blank=2):
    """blank cell with weight p_blank against 3"""
    return st.one_of(*([st.none()] * p_blank + [strategy] * 3))


@st.composite
def link_side(draw, max_km=120.0):
    return [draw(_opt(st.one_of(_num(1, max_km), _num(1, max_km, 5), st.integers(2, int(max_km))), 1)),
            draw(_opt(st.sampled_from(FIBER_TYPES))),
            draw(_opt(_num(0.15, 0.32))),
            draw(_opt(_num(0, 2, 2))),
            draw(_opt(_num(0, 2, 2))),
            draw(_opt(_num(0.01, 3, 2), 3)),
            draw(_opt(st.sampled_from(['F061', 'F010', 'CABLES#19', 'cableB', 'c 7'])))]


@st.composite
def link_row(draw, a, z):
    east = draw(link_side())
    mode = draw(st.sampled_from(['one-sided', 'two-sided', 'two-sided', 'mixed']))
    if mode == 'one-sided':
        west = [None] * 7
    else:
        west = draw(link_side())
        if mode == 'two-sided':
            # every west cell filled and different from east wherever east is filled
            fill = draw(link_side())
            for i in range(7):
                if west[i] is None:
                    west[i] = fill[i]
            dflt = [47.5, 'LOF', 0.23, 0.7, 0.9, 0.4, 'w9']
            alt = [52.25, 'NZDF', 0.27, 1.1, 1.3, 0.6, 'w8']
            for i in range(7):
                if west[i] is None:
                    west[i] = dflt[i]
                if west[i] == east[i]:
                    west[i] = alt[i] if alt[i] != east[i] else dflt[i]
    if draw(st.booleans()):
        a, z = z, a
    return {'a': a, 'z': z, 'east': east, 'west': west}


@st.composite
def eqpt_side(draw, fused_ok=True, blank_ok=True):
    kinds = AMP_TYPES * 2 + ([None] * 3 if blank_ok else []) + (['fused'] if fused_ok else [])
    t = draw(st.sampled_from(kinds))
    if t == 'fused':
        return ['fused', None, None, None, None, None]
    return [t, draw(_opt(_num(0, 2, 1))), draw(_opt(_num(10, 24, 1))), draw(_opt(_num(-2, 2, 1))),
            draw(_opt(_num(0, 3, 1))), draw(_opt(_num(-2, 3, 1)))]


@st.composite
def eqpt_row(draw, a, z, fused_ok=True):
    east = draw(eqpt_side(fused_ok))
    mode = draw(st.sampled_from(['one-sided', 'two-sided', 'two-sided']))
    if mode == 'one-sided':
        west = [None] * 6
    else:
        west = draw(eqpt_side(fused_ok, blank_ok=False))
        if west[0] != 'fused':
            alt = ['std_low_gain', 0.3, 17.5, -0.5, 0.7, 1.5]
            alt2 = ['std_medium_gain', 0.6, 18.5, 0.5, 1.2, 0.5]
            for i in range(6):
                if west[i] is None or west[i] == east[i]:
                    west[i] = alt[i] if alt[i] != east[i] else alt2[i]
    return {'a': a, 'z': z, 'east': east, 'west': west}


@st.composite
def topology(draw, n_range=(2, 7)):
    n = draw(st.integers(*n_range))
    names = draw(st.permutations(CITY_POOL))[:n]
    edges = []
    for i in range(1, n):
        parent = draw(st.sampled_from([i - 1, i - 1, draw(st.integers(0, i - 1))]))
        edges.append((parent, i))
    n_extra = draw(st.sampled_from([0, 0, 1, 1, 2, 3]))
    for _ in range(n_extra):
        i = draw(st.integers(0, n - 1))
        j = draw(st.integers(0, n - 1))
        if i != j and (i, j) not in edges and (j, i) not in edges:
            edges.append((min(i, j), max(i, j)))
    return list(names), edges


@st.composite
def valid_model(draw, services=True, n_range=(2, 7)):
    names, edges = draw(topology(n_range))
    n = len(names)
    deg = [0] * n
    for i, j in edges:
        deg[i] += 1
        deg[j] += 1
    types = []
    for i in range(n):
        if deg[i] == 2:
            t = draw(st.sampled_from(['ROADM', 'ILA', 'ILA', 'FUSED', 'FUSED', None, draw(st.sampled_from(OTHER_TYPES))]))
        else:
            t = draw(st.sampled_from(['ROADM', 'ROADM', 'ROADM', 'ILA', None, draw(st.sampled_from(OTHER_TYPES))]))
        types.append(t)

    def eff(i):
        if types[i] in ('ROADM', 'FUSED'):
            return types[i]
        return 'ILA' if deg[i] == 2 else 'ROADM'
    # at least two ROADM sites (a ring has no leaf)
    k = 0
    while sum(eff(i) == 'ROADM' for i in range(n)) < 2:
        if eff(k) != 'ROADM':
            types[k] = 'ROADM'
        k += 1
    sites = []
    for i, name in enumerate(names):
        geo = draw(st.booleans())
        site = {'city': name, 'state': draw(st.sampled_from([None, 'Bretagne'])),
                'country': draw(st.sampled_from([None, 'France'])), 'region': draw(st.sampled_from([None, 'RLD'])),
                'lat': draw(_num(-60, 60, 2)) if geo else None, 'lon': draw(_num(-170, 170, 2)) if geo else None,
                'type': types[i], 'booster': None, 'preamp': None}
        if eff(i) == 'ROADM' and draw(st.integers(0, 4)) == 0:
            site['booster'] = draw(st.sampled_from(['std_medium_gain', 'std_low_gain | std_medium_gain']))
            site['preamp'] = draw(st.sampled_from([None, 'std_low_gain | std_medium_gain | std_high_gain']))
        sites.append(site)
    links = [draw(link_row(names[i], names[j])) for i, j in edges]
    links = list(draw(st.permutations(links)))
    nb = {i: [] for i in range(n)}
    for i, j in edges:
        nb[i].append(j)
        nb[j].append(i)

    # Eqpt sheet
    eq_mode = draw(st.sampled_from(['none', 'full', 'partial', 'partial']))
    eqpt = None
    if eq_mode != 'none':
        eqpt = []
        for i in range(n):
            e = eff(i)
            if e == 'FUSED':
                continue
            if e == 'ILA':
                if eq_mode == 'full' or draw(st.booleans()):
                    eqpt.append(draw(eqpt_row(names[i], names[draw(st.sampled_from(nb[i]))])))
            else:
                declared = types[i] == 'ROADM'
                rows = [j for j in nb[i] if eq_mode == 'full' or draw(st.booleans())]
                if not declared:
                    # a site the converter re-types to ROADM: at most one row here, the multi-row shape is a tagged class
                    rows = rows[:1]
                for j in rows:
                    eqpt.append(draw(eqpt_row(names[i], names[j])))
        eqpt = list(draw(st.permutations(eqpt)))

    # Roadms sheet: only degrees whose booster (and the from-degrees' preamps) are named in the Eqpt sheet
    roadms = None
    if eqpt and draw(st.integers(0, 3)) > 0:
        roadms = []
        by_site = {}
        for e in eqpt:
            by_site.setdefault(e['a'], []).append(e)
        for i in range(n):
            if types[i] != 'ROADM' or names[i] not in by_site:
                continue
            variety = draw(st.sampled_from([None, None, 'roadm_type_1', 'detailed_impairments']))
            for e in by_site[names[i]]:
                if e['east'][0] == 'fused' or not draw(st.booleans()):
                    continue
                row = {'a': e['a'], 'z': e['z'], 'power': draw(_opt(_num(-25, -15, 1), 1)), 'variety': variety,
                       'from': None, 'ids': None}
                others = [o['z'] for o in by_site[names[i]] if o is not e and o['west'][0] != 'fused']
                if variety == 'detailed_impairments' and others and draw(st.booleans()):
                    k = draw(st.integers(1, min(3, len(others))))
                    row['from'] = ' | '.join(others[:k])
                    row['ids'] = ' | '.join(['0'] * k)      # numeric id cells: tagged class
                roadms.append(row)

    service = None
    roadm_sites = [names[i] for i in range(n) if eff(i) == 'ROADM']
    if services and draw(st.integers(0, 3)) > 0:
        # a site the converter re-types to ROADM is named by its exact element name (tagged class otherwise)
        service = draw(service_rows(roadm_sites, by_city=[names[i] for i in range(n) if types[i] == 'ROADM']))
        # optionally one route through an ILA site named by its city, followed by the next (non fused) site in one
        # direction: the converter has to pick the amplifier of that direction (docstring of correct_xls_route_list)
        hops = []
        fused_amp = {e['a'] for e in (eqpt or []) if 'fused' in (e['east'][0], e['west'][0])}
        for i in range(n):
            if eff(i) != 'ILA' or names[i] in fused_amp:
                continue
            ends = []
            for d in nb[i]:
                prev, cur = i, d
                for _ in range(n + 1):
                    if eff(cur) != 'FUSED':
                        break
                    prev, cur = cur, next(x for x in nb[cur] if x != prev)
                ends.append(cur)
            if ends[0] != ends[1] and i not in ends:
                for k in (0, 1):
                    if types[ends[k]] == 'ROADM':
                        hops.append((names[i], names[ends[k]]))
        if hops and draw(st.booleans()):
            hop = draw(st.sampled_from(hops))
            row = service[draw(st.integers(0, len(service) - 1))]
            row['path'] = f'{hop[0]} | {hop[1]}'
    return {'sites': sites, 'links': links, 'eqpt': eqpt, 'eqpt_cols': draw(st.sampled_from([14, 14, 12])),
            'roadms': roadms, 'service': service, 'bidir': draw(st.booleans()),
            'ghost': draw(st.sampled_from([0, 0, 1, 3])), 'header_edit': None, 'expect': 'valid',
            'blank_rows': draw(st.integers(0, 3)) == 0}


@st.composite
def service_rows(draw, roadm_sites, loose_values=(None, 'yes', 'Yes', 'YES', 'no'), by_city=None):
    """by_city: ROADM sites that may be named by their bare city name in a route list (default: all)"""
    by_city = set(roadm_sites if by_city is None else by_city)
    n = draw(st.integers(1, 4))
    id_kind = draw(st.sampled_from(['int', 'int', 'str']))
    ids = list(range(n)) if id_kind == 'int' else ['reqA', 'main', 'prot', 'r_3'][:n]
    rows = []
    for i in range(n):
        src, dst = draw(st.permutations(roadm_sites))[:2]
        trx = draw(st.sampled_from(sorted(TRX)))
        mode = draw(st.sampled_from([None] + TRX[trx]))
        row = {'id': ids[i], 'src': src, 'dst': dst, 'trx': trx, 'mode': mode,
               'spacing': draw(st.sampled_from([75, 75.0, 87.5, 100, 112.5, 150.0])),
               'power': draw(_opt(_num(-3, 3, 1))),
               'nch': draw(_opt(st.one_of(st.integers(1, 96), st.integers(1, 96).map(float)))),
               'disjoint': None, 'path': None, 'loose': draw(st.sampled_from(list(loose_values))),
               'bw': draw(st.sampled_from([10, 100, 100.0, 200, 250.5, 400]))}
        others = [x for x in ids if x != ids[i]]
        if others and draw(st.integers(0, 2)) == 0:
            k = draw(st.integers(1, min(2, len(others))))
            chosen = draw(st.permutations(others))[:k]
            if k == 1 and id_kind == 'int' and draw(st.booleans()):
                row['disjoint'] = float(chosen[0])          # a numeric cell
            else:
                row['disjoint'] = ' | '.join(str(c) for c in chosen)
        if draw(st.integers(0, 1)) == 0:
            k = draw(st.integers(1, min(3, len(roadm_sites))))
            hops = draw(st.permutations(roadm_sites))[:k]
            style = draw(st.sampled_from(['city', 'uid', 'mixed']))
            typed = [(h if h in by_city and (style == 'city' or (style == 'mixed' and j % 2)) else f'roadm {h}')
                     for j, h in enumerate(hops)]
            if row['loose'] != 'no' and draw(st.integers(0, 2)) == 0:
                # a loose route may name things that cannot be used as constraints (a place that is not in the Nodes sheet,
                # a transceiver): they are skipped, the rest of the route is kept (correct_xls_route_list)
                other = [x for x in roadm_sites if x not in (src, dst)]
                bad = draw(st.sampled_from(['Atlantis', 'roadm Atlantis'] + ([f'trx {other[0]}'] if other else [])))
                typed.insert(draw(st.integers(0, len(typed))), bad)
                row['unusable'] = bad
            row['path'] = ' | '.join(typed)
        rows.append(row)
    if n >= 4 and draw(st.integers(0, 2)) == 0:
        # a chain of pairwise entries: 0 disjoint from 1, 2 disjoint from 3, then 1 disjoint from 2 (every entry is a group of
        # its own, although each of the ids of the last one already appears in an earlier group)
        rows[0]['disjoint'], rows[2]['disjoint'], rows[1]['disjoint'] = str(ids[1]), str(ids[3]), str(ids[2])
        rows[3]['disjoint'] = None
    return rows


INVALID_RULES = ['dup-city', 'dup-link-same', 'dup-link-reverse', 'dangling-link-a', 'dangling-link-z',
                 'unreferenced-node', 'eqpt-unknown-a', 'eqpt-unknown-z', 'eqpt-missing-link', 'eqpt-duplicate',
                 'eqpt-two-rows-ila', 'roadms-id-count', 'missing-header']


def invalid_model():
    """a valid model plus exactly one violation of a documented sanity rule; one stratum per rule (see pbt.runner.search), so that every rule gets an
    equal share of the examples whatever the distribution of Hypothesis' choices"""
    return [_invalid_model(r) for r in INVALID_RULES]


@st.composite
def _invalid_model(draw, wanted):
    m = draw(valid_model(services=False))
    names = [s['city'] for s in m['sites']]
    nb = neighbours(m)
    eff = effective_types(m)
    declared = {s['city']: s['type'] for s in m['sites']}
    non_adjacent = [(a, b) for a in names for b in names if a != b and b not in nb[a]]
    ilas = [c for c in names if eff[c] == 'ILA']
    rules = [r for r in INVALID_RULES
             if not (r == 'eqpt-missing-link' and not non_adjacent) and not (r == 'eqpt-two-rows-ila' and not ilas)]
    # the wanted rule when the model allows it (a complete graph has no missing link, a ROADM-only model no ILA)
    rule = wanted if wanted in rules else rules[draw(st.integers(0, len(rules) - 1))]
    detail = rule
    unknown = draw(st.sampled_from(['toto', 'Paris', 'Corlay2']))

    def ensure_eqpt():
        if m['eqpt'] is None:
            m['eqpt'] = []

    def insert(lst, item):
        lst.insert(draw(st.integers(0, len(lst))), item)

    if rule == 'dup-city':
        src = dict(draw(st.sampled_from(m['sites'])))
        if draw(st.booleans()):
            src['type'] = draw(st.sampled_from(['ROADM', 'ILA', None]))
        insert(m['sites'], src)
    elif rule in ('dup-link-same', 'dup-link-reverse'):
        base = draw(st.sampled_from(m['links']))
        a, z = (base['a'], base['z']) if rule == 'dup-link-same' else (base['z'], base['a'])
        row = draw(link_row(a, z))
        row['a'], row['z'] = a, z
        insert(m['links'], row)
    elif rule in ('dangling-link-a', 'dangling-link-z'):
        known = draw(st.sampled_from(names))
        row = draw(link_row(known, unknown))
        row['a'], row['z'] = (unknown, known) if rule == 'dangling-link-a' else (known, unknown)
        insert(m['links'], row)
    elif rule == 'unreferenced-node':
        site = dict(m['sites'][0])
        site.update({'city': unknown, 'type': draw(st.sampled_from(['ROADM', 'ILA', 'FUSED', None])),
                     'booster': None, 'preamp': None})
        insert(m['sites'], site)
    elif rule in ('eqpt-unknown-a', 'eqpt-unknown-z'):
        ensure_eqpt()
        known = draw(st.sampled_from(names))
        a, z = (unknown, known) if rule == 'eqpt-unknown-a' else (known, unknown)
        insert(m['eqpt'], draw(eqpt_row(a, z)))
    elif rule == 'eqpt-missing-link':
        ensure_eqpt()
        a, z = draw(st.sampled_from(non_adjacent))
        # keep it the only violation: no second row for an ILA site
        m['eqpt'] = [e for e in m['eqpt'] if e['a'] != a]
        insert(m['eqpt'], draw(eqpt_row(a, z)))
    elif rule == 'eqpt-duplicate':
        ensure_eqpt()
        cands = [c for c in names if eff[c] == 'ROADM' and declared[c] == 'ROADM']
        if m['eqpt'] and draw(st.booleans()):
            base = draw(st.sampled_from(m['eqpt']))
            a, z = base['a'], base['z']
            detail += ':any-site'
        else:
            a = draw(st.sampled_from(cands or names))
            z = draw(st.sampled_from(nb[a]))
            m['eqpt'] = [e for e in m['eqpt'] if (e['a'], e['z']) != (a, z)]
            insert(m['eqpt'], draw(eqpt_row(a, z)))
        insert(m['eqpt'], draw(eqpt_row(a, z)))
    elif rule == 'eqpt-two-rows-ila':
        ensure_eqpt()
        a = draw(st.sampled_from(ilas))
        m['eqpt'] = [e for e in m['eqpt'] if e['a'] != a]
        z1, z2 = nb[a]
        if draw(st.booleans()):
            z1, z2 = z2, z1
        insert(m['eqpt'], draw(eqpt_row(a, z1)))
        insert(m['eqpt'], draw(eqpt_row(a, z2)))
    elif rule == 'roadms-id-count':
        a = draw(st.sampled_from([c for c in names if eff[c] == 'ROADM']))
        z = draw(st.sampled_from(nb[a]))
        n_from, n_ids = draw(st.sampled_from([(1, 2), (2, 1), (2, 3), (3, 1)]))
        pool = (nb[a] + names + names)[:n_from]
        row = {'a': a, 'z': z, 'power': None, 'variety': 'detailed_impairments', 'from': ' | '.join(pool),
               'ids': ' | '.join(['0'] * n_ids)}
        if m['roadms'] is None:
            m['roadms'] = []
        m['roadms'] = [r for r in m['roadms'] if r['a'] != a]
        insert(m['roadms'], row)
    elif rule == 'missing-header':
        edits = [['Nodes', 'City', 'Town'], ['Links', 'Node A', 'From'], ['Links', 'Node Z', 'To'],
                 ['Links', 'east cable (from a to z)', 'a to z']]
        if m['eqpt'] is not None:
            edits += [['Eqpt', 'Node A', 'From'], ['Eqpt', 'Node Z', 'To'],
                      ['Eqpt', 'Node a egress/east amp (from a to z)', 'egress']]
        m['header_edit'] = draw(st.sampled_from(edits))
        detail += ':' + m['header_edit'][0] + ':' + m['header_edit'][1][:6]
    m['service'] = None
    m['expect'] = 'invalid:' + detail
    return m


SHAPES = ['fused-degree-1', 'fused-degree-3', 'self-link', 'retyped-roadm-eqpt-rows', 'numeric-impairment-id']


@st.composite
def shape_model(draw, shapes=tuple(SHAPES)):
    """Workbooks outside the ordinary classes whose treatment the documentation decides (see C20 findings)."""
    shape = list(shapes)[draw(st.integers(0, 2 ** 24)) % len(shapes)]
    m = draw(valid_model(services=False, n_range=(3, 6)))
    names = [s['city'] for s in m['sites']]
    deg = degrees(m)
    m['roadms'] = None
    m['ghost'] = 0
    if shape in ('fused-degree-1', 'fused-degree-3'):
        want = 1 if shape == 'fused-degree-1' else 3
        cands = [c for c in names if deg[c] == want]
        if not cands:
            # build the degree by adding a fresh site (degree 1) or links to a degree-1/2 site
            if want == 1:
                new = 'Leaf'
                m['sites'].append({'city': new, 'state': None, 'country': None, 'region': None, 'lat': None,
                                   'lon': None, 'type': 'FUSED', 'booster': None, 'preamp': None})
                m['links'].append(draw(link_row(names[0], new)))
                cands = [new]
            else:
                below = [x for x in names if deg[x] < 3]
                # raise a site of degree 1-2 to degree 3 (a site of degree > 3 exists otherwise: also 'not 2')
                c = sorted(below, key=lambda x: -deg[x])[0] if below else sorted(names, key=lambda x: deg[x])[0]
                k = 0
                while deg[c] < 3:
                    new = f'Extra{k}'
                    k += 1
                    m['sites'].append({'city': new, 'state': None, 'country': None, 'region': None, 'lat': None,
                                       'lon': None, 'type': 'ROADM', 'booster': None, 'preamp': None})
                    m['links'].append(draw(link_row(c, new)))
                    deg[c] += 1
                cands = [c]
        site = cands[0]
        for s in m['sites']:
            if s['city'] == site:
                s['type'] = 'FUSED'
                s['booster'] = s['preamp'] = None
        if m['eqpt'] is not None:
            m['eqpt'] = [e for e in m['eqpt'] if site not in (e['a'], e['z'])]
        m['focus'] = site
    elif shape == 'self-link':
        site = draw(st.sampled_from([s['city'] for s in m['sites'] if s['type'] != 'FUSED']))
        row = draw(link_row(site, site))
        m['links'].append(row)
        if m['eqpt'] is not None:
            m['eqpt'] = [e for e in m['eqpt'] if site not in (e['a'], e['z'])]
        m['focus'] = site
    elif shape == 'retyped-roadm-eqpt-rows':
        # a site left to the automatic typing (ILA / blank / other string) of degree != 2 with one Eqpt row per degree
        nb = neighbours(m)
        cands = [c for c in names if deg[c] >= 3]
        if not cands:
            c = names[0]
            k = 0
            while deg[c] < 3:
                new = f'Extra{k}'
                k += 1
                m['sites'].append({'city': new, 'state': None, 'country': None, 'region': None, 'lat': None,
                                   'lon': None, 'type': 'ROADM', 'booster': None, 'preamp': None})
                m['links'].append(draw(link_row(c, new)))
                deg[c] += 1
            cands = [c]
            nb = neighbours(m)
        site = cands[0]
        for s in m['sites']:
            if s['city'] == site:
                s['type'] = draw(st.sampled_from(['ILA', None, 'OLA']))
        if m['eqpt'] is None:
            m['eqpt'] = []
        m['eqpt'] = [e for e in m['eqpt'] if e['a'] != site]
        k = draw(st.integers(2, len(nb[site])))
        for z in nb[site][:k]:
            m['eqpt'].append(draw(eqpt_row(site, z, fused_ok=False)))
        m['focus'] = site
    elif shape == 'numeric-impairment-id':
        # one 'from degree' with its impairment id typed as a number in the cell
        nb = neighbours(m)
        eff = effective_types(m)
        cands = [c for c in names if eff[c] == 'ROADM' and len(nb[c]) >= 2]
        if not cands:
            c = [x for x in names if eff[x] == 'ROADM'][0]
            new = 'Extra0'
            m['sites'].append({'city': new, 'state': None, 'country': None, 'region': None, 'lat': None,
                               'lon': None, 'type': 'ROADM', 'booster': None, 'preamp': None})
            m['links'].append(draw(link_row(c, new)))
            cands = [c]
            nb = neighbours(m)
        site = cands[0]
        for s in m['sites']:
            if s['city'] == site:
                s['type'] = 'ROADM'
        if m['eqpt'] is None:
            m['eqpt'] = []
        m['eqpt'] = [e for e in m['eqpt'] if e['a'] != site]
        z, frm = nb[site][0], nb[site][1]
        m['eqpt'].append(draw(eqpt_row(site, z, fused_ok=False)))
        m['eqpt'].append(draw(eqpt_row(site, frm, fused_ok=False)))
        m['roadms'] = [{'a': site, 'z': z, 'power': None, 'variety': 'detailed_impairments', 'from': frm,
                        'ids': draw(st.sampled_from([0, 0.0]))}]
        m['focus'] = site
    m['service'] = None
    m['expect'] = 'shape:' + shape
    return m
