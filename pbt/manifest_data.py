"""Source of MANIFEST.json (tools/gen_manifest.py)."""
FIX_COMMITS = []   # hook commits only (none); fix: commits are listed in known_findings.json

_NOTE = ('Trusted base: Python/numpy/scipy/networkx, Hypothesis, the generators in pbt/gens (sound by construction, see '
         'DESIGN §2.8) and the reference formulas in the property module. Exploration only: absence of violations on the '
         'explored cases, no proof.')

CHECKS = {
    'C01': {
        'text': 'Generated operation histories on SpectralInformation compared step by step with an independent '
                'three-powers-per-channel reference model, plus real propagations through generated designed networks '
                'with the decomposition and the reported receiver identity checked after every element.',
        'note': _NOTE,
        'technique': 'property-based testing: model-based operation histories + invariant over recorded propagation',
    },
}

_PENDING = 'check not built yet in this session (work in progress, see DESIGN.md §3)'
NOT_APPLICABLE = {f'C{i:02d}': _PENDING for i in range(1, 21) if f'C{i:02d}' not in CHECKS}
