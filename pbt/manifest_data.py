"""Source of MANIFEST.json (tools/gen_manifest.py)."""
FIX_COMMITS = []   # hook commits only (none); fix: commits are listed in known_findings.json

_NOTE = ('Trusted base: Python/numpy/scipy/networkx, Hypothesis, the generators in pbt/gens (sound by construction, see '
         'DESIGN §2.8) and the reference formulas in the property module. Exploration only: absence of violations on the '
         'explored cases, no proof.')

CHECKS = {
    'C01': {
        'text': 'Generated operation histories on SpectralInformation (gains, losses, ASE, NLI, split into up to five bands and '
                'merge in any order, repeated receiver evaluations) compared step by step with an independent '
                'three-powers-per-channel reference model, plus real propagations through generated designed networks '
                'with the decomposition and the reported receiver identity checked after every element.',
        'note': _NOTE,
        'technique': 'property-based testing: model-based operation histories + invariant over recorded propagation',
    },
    'C02': {
        'text': 'Real propagations through generated designed networks under an in-process element recorder: per element and '
                'per channel the ASE/signal and NLI/signal ratios never decrease, are exactly unchanged by ROADM/Fused/'
                'Transceiver, NLI/signal unchanged by amplifiers and ASE/signal unchanged by non-Raman fibres; a second '
                'sub-check adds RamanFiber spans with the Raman solver on.',
        'note': _NOTE,
        'technique': 'property-based testing: invariant over recorded per-element snapshots of generated propagations',
    },
    'C04': {
        'text': 'Generated amplifier entries of every type_def through the real library loader x operational settings x '
                'generated spectra: effective gain clamp, total gain, input-referred ASE = h*f*baud*NF, NF models re-derived '
                'from the documentation, in-band channel selection.',
        'note': _NOTE,
        'technique': 'property-based testing: reference formulas + metamorphic relation (same total power on other channel count)',
    },
    'C06': {
        'text': 'Generated star networks around one ROADM (three equalisation policies, per-degree overrides, impairment '
                'profiles) designed by the real auto-design; express/add/drop crossings with generated spectra compared with '
                'own min(target+offset, in-maxloss) arithmetic; single-policy enforcement checked on loader, element and export.',
        'note': _NOTE,
        'technique': 'property-based testing: reference model of the equalisation rule',
    },
    'C08': {
        'text': 'Generated libraries and meshes (fibres from metres to hundreds of km incl. lumped and per-frequency loss, fused '
                'junctions, user amplifiers with full/partial/no settings, RamanFiber spans) through the real designed_network(); '
                'the designed graph is judged by a validity predicate (complete amplifiers, connectors, padding, equal '
                'loss-preserving splits, no unamplified junction, one-in/one-out chains, unchanged ROADM-level graph).',
        'note': _NOTE,
        'technique': 'property-based testing: validity predicate over designed generated topologies',
    },
    'C09': {
        'text': 'Point-to-point lines starting at a transceiver (any SI tx power): every amplifier delivers reference power + offset. '
                'Same generator; for every OMS the gain/target consistency relation, the documented delta_p rule (rounding, '
                'clamping, 0 before a ROADM, justified saturation reductions, operator values kept) and the propagation of the '
                'design comb against the designed powers.',
        'note': _NOTE,
        'technique': 'property-based testing: reference model of the documented power rule + differential design-vs-propagation',
    },
    'C10': {
        'text': 'Multiband: models chosen for untyped C+L amplifiers are permitted, consistent over the bands, capable and not dominated in noise figure. '
                'select_edfa() on generated libraries against an own capability/NF ranking, and the models chosen by the real '
                'design in generated networks against the permitted set by documented precedence (variety list, ROADM '
                'restriction, allowed_for_design, band, Raman rule).',
        'note': _NOTE,
        'technique': 'property-based testing: brute-force optimality oracle over the generated library',
    },
    'C11': {
        'text': 'Routes of compute_path_dsjctn (as called by planning) on generated designed meshes compared with a brute-force '
                'enumeration of all simple ROADM-level paths of the ground-truth multigraph filtered by the include list; '
                'LOOSE/STRICT outcomes and reverse paths checked.',
        'note': _NOTE,
        'technique': 'property-based testing: brute-force graph search as reference model',
    },
    'C12': {
        'text': 'Random groups, 1+1 protection pairs, cyclic pair groups and bridge topologies: paths returned for synchronisation groups mapped to ground-truth undirected link ids (from the generator uid '
                'scheme) and required pairwise disjoint, DisjunctionError required otherwise; completeness for single pairs '
                'against an own brute-force search for two link-disjoint paths.',
        'note': _NOTE,
        'technique': 'property-based testing: ground-truth link sets + brute-force existence search',
    },
    'C03': {
        'text': 'NliSolver.compute_nli (gn_model_analytic) on generated fibres x combs against a scalar-loop re-implementation of '
                'eq. 120/123 of arXiv:1209.0394 (rtol 1e-9), plus metamorphic laws: non-negativity, cubic power scaling, '
                'monotonicity under added channel / raised power, permutation invariance, end-to-end through Fiber.__call__.',
        'note': _NOTE + ' Fibre accessor values alpha(f), beta2(f), gamma(f) are inputs of the reference formula.',
        'technique': 'property-based testing: closed-form reference model + metamorphic relations',
    },
    'C05': {
        'text': 'Generated chains of fibres (scalar/per-frequency loss listed in any order, lumped losses, connectors) with ROADM / amplifier / multiband-amplifier PMD/PDL '
                'contributions: per-channel loss budget, additive CD/latency, quadrature PMD/PDL, span-order invariance; Raman '
                'solver: low-power limit, perturbative vs numerical agreement within the derived Euler bound, lumped loss applied '
                'once, counter-propagating pumps only add gain.',
        'note': _NOTE,
        'technique': 'property-based testing: reference arithmetic + metamorphic (permutation, inserted lumped loss) + differential (two solver methods)',
    },
    'C13': {
        'text': 'One generated request (fixed mode / automatic mode, optional bidirectional) on a generated designed network '
                'through planning(): receiver GSNR re-derived from the raw line figure + tx OSNR + each add/drop OSNR once, '
                'penalties re-interpolated, verdict recomputed around thresholds placed near the achievable metric; automatic '
                'mode compared with independent fixed-mode plannings of every candidate mode (history clause).',
        'note': _NOTE,
        'technique': 'property-based testing: reference receiver arithmetic + differential (auto mode vs fixed-mode runs)',
    },
    'C14': {
        'text': 'Generated histories of pth_assign_spectrum calls (single and batched requests with any fixed/free N/M mix, '
                'pre-occupation, edge windows) on generated designed networks with differing usable bands, mirrored by an '
                'explicit per-OMS occupancy set model checked after every step.',
        'note': _NOTE,
        'technique': 'property-based testing: model-based histories (set-of-slots reference model, invariant after each step)',
    },
    'C15': {
        'text': 'build_oms_list on generated networks whose OMS differ in amplifier bands (C, reduced C, L, C+L multiband) and on '
                'the shipped multiband example: partition/pairing vs ground truth, common extent, usable slots vs own band '
                'arithmetic; align_grids / insert_left / insert_right on generated bitmap sets; slot arithmetic round trips.',
        'note': _NOTE,
        'technique': 'property-based testing: ground-truth partition + reference band arithmetic + invariants of grid alignment',
    },
    'C16': {
        'text': 'Differential over histories (incl. GGN parameters, explicit line routes, twin requests differing in tx power, synchronisation vectors): each generated request (each component of requests tied by synchronisation vectors) planned alone on a pristine copy vs inside 2-4 generated '
                'orderings / sub-batches that reuse one network object; routes, modes, receiver figures, verdicts compared '
                '(1e-9), network state digest and export compared before/after.',
        'note': _NOTE,
        'technique': 'property-based testing: differential (alone vs in batch) over generated orderings + state-digest invariant',
    },
    'C20': {
        'text': 'Generated workbook models rendered to real .xlsx files and to an xlrd-compatible in-memory stub (.xls branch), '
                'valid and with exactly one rule violation, plus the shipped workbooks; converted JSON checked against an '
                'oracle derived from the model only (elements, per-direction fibre parameters, east/west amplifier settings, '
                'wiring), then loaded and designed; service rows checked against the model.',
        'note': _NOTE + ' The .xls binary reader itself is exercised on the shipped fixtures only (no xlwt available).',
        'technique': 'property-based testing: model-derived expected output + differential (.xlsx vs .xls branch) + fault injection of sheet rules',
    },
    'C07': {
        'text': 'Networks whose links carry different amplifier bands (C, reduced C, short C, C+L multiband, three-band lines) and arbitrary carrier '
                'lists placed on band edges and in band gaps through the real propagate() under the element recorder: the '
                'frequency list after the pre-filter and after every element equals the own interval-arithmetic expectation, '
                'per-channel data travels with its frequency, invalid spectra are rejected, carrier order is irrelevant '
                '(bit-identical receiver arrays).',
        'note': _NOTE,
        'technique': 'property-based testing: reference interval arithmetic + metamorphic (permutation) + invariant per element',
    },
    'C17': {
        'text': 'Generated topologies and SimParams through 1-3 export -> reload (real load path) -> redesign rounds: element set, '
                'every exported parameter (1e-6) and connections stable; same input designed twice identical; receiver figures '
                'of first and last round equal; SimParams identical before/after design (also failed designs, Raman spans).',
        'note': _NOTE,
        'technique': 'property-based testing: round trip over generated export/reload/redesign histories + global-state invariant',
    },
    'C19': {
        'text': 'Reverse directions re-propagated independently when several bidirectional requests share a batch. Batches with every reachable outcome (served, bidirectional, multi-slot, aggregated duplicates, each blocking '
                'reason) through planning(), results_to_json() and jsontocsv(): the response is compared with an expectation '
                'rebuilt from the post-planning request objects and each request\'s own forward/reverse propagated path '
                '(ids, aggregation, hop list, labels, transponder objects, eleven metrics, blocked layout, CSV fields and pass flag).',
        'note': _NOTE,
        'technique': 'property-based testing: expected document rebuilt from the computed objects (consistency oracle) over generated outcome mixes',
    },
    'C18': {
        'text': 'Grammar-based legacy documents of all kinds (equipment, topology, services, spectrum, sim-params, amplifier '
                'config; values within and beyond the declared fraction digits; shipped files as seeds): validity of the YANG '
                'form, idempotence of both conversions, round trip to the declared precision (digits read from the .yang files '
                'by an own parser), equality of the objects built by the public loaders from either form, equal design + '
                'propagation results, alias semantics, and member-order robustness (risky conversions run in a subprocess).',
        'note': _NOTE + ' libyang is trusted as the judge of YANG validity.',
        'technique': 'property-based testing: round trip + idempotence + differential loading of two document forms',
    },
}

_PENDING = 'check not built yet in this session (work in progress, see DESIGN.md §3)'
NOT_APPLICABLE = {f'C{i:02d}': _PENDING for i in range(1, 21) if f'C{i:02d}' not in CHECKS}
