"""Tolerant structural comparison of JSON documents and of python objects built by the gnpy loaders (C18 oracles).

doc_diff(kind, L, R): first difference between a legacy document L and another legacy-form document R, where the
following are NOT differences (property C18): a key that is null on one side and absent on the other, order of keyed
lists, int vs float vs decimal string carrying the same number, and |delta| <= 1/2 * 10**-d on a leaf whose YANG
declaration has d fraction digits *when the left value carries more than d fraction digits* (a value with at most d
digits must come back exactly).
Returns None or (sig_path, detail): in sig_path entries of keyed lists appear as [*], positions of plain lists as [0]
(first) or [1+] (any later one), uids used as dict keys as {*} (stable signature); detail carries the concrete path
and both values.
"""
import math
from decimal import Decimal

from pbt.oracles.yangdigits import declared_digits

_ABSENT = object()

# lists whose elements are identified by key leaves (YANG list keys); all other lists are positional
KEYED = {
    'elements': ('uid',), 'connections': ('from_node', 'to_node'),
    'Edfa': ('type_variety',), 'Fiber': ('type_variety',), 'RamanFiber': ('type_variety',),
    'Roadm': ('type_variety',), 'Transceiver': ('type_variety',), 'mode': ('format',),
    'lumped_losses': ('position',), 'raman_pumps': ('frequency',), 'design_bands': ('f_min',),
    'route-object-include-exclude': ('index',), 'effective-freq-slot': ('N',), 'path-request': ('request-id',),
    'synchronization': ('synchronization-id',), 'spectrum': ('f_min',),
    'roadm-path-impairments': ('roadm-path-impairments-id',), 'per_degree_impairments': ('from_degree', 'to_degree'),
}


def is_number(x):
    return isinstance(x, (int, float)) and not isinstance(x, bool)


def fraction_digits_of(x):
    """number of decimal fraction digits of the shortest repr of a float / int"""
    d = Decimal(repr(float(x)))
    if not d.is_finite():
        return 0
    return max(0, -d.normalize().as_tuple().exponent)


def prune(x):
    """null == absent: drop None members; empty containers (also those emptied by that) count as absent too --
    what an optional empty list/dict means to the loaders is judged by the semantic comparison"""
    if isinstance(x, dict):
        out = {}
        for k, v in x.items():
            p = prune(v)
            if p is not _ABSENT:
                out[k] = p
        return out if out else _ABSENT
    if isinstance(x, list):
        out = [p for p in (prune(v) for v in x) if p is not _ABSENT]
        return out if out else _ABSENT
    if x is None:
        return _ABSENT
    return x


_BY_UID = ('per_degree_pch_out_db', 'per_degree_psd_out_mWperGHz', 'per_degree_psd_out_mWperSlotWidth',
           'per_degree_design_bands')


def _sig(path):
    out = ''
    prev = None
    for p in path:
        if isinstance(p, tuple):
            out += '[*]'                            # entry of a keyed list
        elif isinstance(p, int):
            out += '[0]' if p == 0 else '[1+]'      # positional list: first entry vs any later one
        elif prev in _BY_UID:
            out += '{*}'
        else:
            out += ('.' if out else '') + str(p)
        prev = p
    return out


def _show(path):
    out = ''
    for p in path:
        if isinstance(p, int):
            out += f'[{p}]'
        elif isinstance(p, tuple):
            out += '[' + ','.join(str(x) for x in p) + ']'
        else:
            out += ('.' if out else '') + str(p)
    return out


def _num(x):
    """number carried by x (number or decimal string) or None"""
    if is_number(x):
        return float(x)
    if isinstance(x, str):
        try:
            v = float(x)
        except ValueError:
            return None
        return v if math.isfinite(v) else None
    return None


class Differ:
    """collects every difference (one per signature path, bounded) in self.found as (sig_path, detail)"""

    def __init__(self, kind, tolerant=True, notes=None, limit=8):
        self.kind = kind
        self.tolerant = tolerant        # False: numbers must be equal (idempotence checks)
        self.notes = notes if notes is not None else set()
        self.found = []
        self.limit = limit

    def fail(self, path, what, a, b):
        sig = _sig(path)
        if len(self.found) < self.limit and all(sig != f[0] for f in self.found):
            self.found.append((sig, f'{_show(path)}: {what}: left={a!r} right={b!r}'[:1500]))

    def number(self, path, a, b):
        # digits are looked up on the path without tuple keys (keyed-list identifiers behave like indices)
        lookup = tuple(0 if isinstance(p, tuple) else p for p in path)
        if a == b:
            return
        if not self.tolerant:
            return self.fail(path, 'number changed', a, b)
        d = declared_digits(self.kind, lookup)
        if d is None or d < 0:
            return self.fail(path, 'number changed (no decimal precision declared)', a, b)
        have = fraction_digits_of(a)
        if have <= d:
            return self.fail(path, f'value with {have} fraction digits not preserved (declared {d})', a, b)
        tol = 0.5 * 10.0 ** -d
        if d >= 17:
            # 17/18 fraction digits is beyond what a float64 of this magnitude resolves; the formatter cuts the repr
            # instead of rounding there (error < 1 unit of the last declared digit, ~1e-14 relative): still "to the
            # declared precision", not judged as a loss
            tol = 1.0 * 10.0 ** -d
        slack = 4 * math.ulp(max(abs(a), abs(b))) + tol * 1e-9
        if abs(a - b) > tol + slack:
            return self.fail(path, f'|delta|={abs(a - b):.3g} > 1/2*10^-{d}', a, b)
        self.notes.add('rounded-within-precision')

    def diff(self, a, b, path=()):
        if len(self.found) >= self.limit:
            return
        if isinstance(a, bool) or isinstance(b, bool):
            if a is not b:
                self.fail(path, 'boolean changed', a, b)
            return
        na, nb = _num(a), _num(b)
        if (is_number(a) or is_number(b)) and na is not None and nb is not None:
            if isinstance(a, str) or isinstance(b, str):
                self.notes.add('decimal-string-vs-number')
            return self.number(path, na, nb)
        if isinstance(a, dict) and isinstance(b, dict):
            for k in list(a) + [k for k in b if k not in a]:
                if k not in a:
                    self.fail(path + (k,), 'key appeared', None, b[k])
                elif k not in b:
                    self.fail(path + (k,), 'key lost', a[k], None)
                else:
                    self.diff(a[k], b[k], path + (k,))
            return
        if isinstance(a, list) and isinstance(b, list):
            name = next((p for p in reversed(path) if isinstance(p, str)), None)
            keys = KEYED.get(name)
            # a list directly inside a dict keyed by degree uid (per_degree_design_bands) is a design_bands list
            if len(path) >= 2 and path[-2] == 'per_degree_design_bands':
                keys = KEYED['design_bands']
            if keys and all(isinstance(e, dict) and all(k in e for k in keys) for e in a + b):
                def ident(e):
                    return tuple(_num(e[k]) if _num(e[k]) is not None and not isinstance(e[k], str) else e[k]
                                 for k in keys)
                da, db = {}, {}
                for e in a:
                    da.setdefault(ident(e), []).append(e)
                for e in b:
                    db.setdefault(ident(e), []).append(e)
                for k in da:
                    if k not in db:
                        self.fail(path + (k,), 'list entry lost', da[k][0], None)
                    elif len(da[k]) != len(db[k]):
                        self.fail(path + (k,), 'number of entries with this key changed', len(da[k]), len(db[k]))
                    else:
                        for ea, eb in zip(da[k], db[k]):
                            self.diff(ea, eb, path + (k,))
                for k in db:
                    if k not in da:
                        self.fail(path + (k,), 'list entry appeared', None, db[k][0])
                return
            if len(a) != len(b):
                return self.fail(path, 'list length changed', len(a), len(b))
            for i, (ea, eb) in enumerate(zip(a, b)):
                self.diff(ea, eb, path + (i,))
            return
        if type(a) is not type(b) or a != b:
            self.fail(path, 'value changed', a, b)


def _default_roadm_variety(doc):
    """docs/json.rst: Roadm type_variety is optional, default 'default' -> absent == 'default'"""
    if isinstance(doc, dict) and isinstance(doc.get('Roadm'), list):
        doc = dict(doc)
        doc['Roadm'] = [dict(r, type_variety='default') if isinstance(r, dict) and 'type_variety' not in r else r
                        for r in doc['Roadm']]
    return doc


def doc_diff(kind, left, right, tolerant=True, notes=None):
    """list of (sig_path, detail), one per differing path (bounded); empty when the documents agree"""
    a, b = prune(left), prune(right)
    if a is _ABSENT or b is _ABSENT:
        if a is b:
            return []
        return [('', f'document vanished: left={left!r} right={right!r}'[:1500])]
    if kind == 'equipment':
        a, b = _default_roadm_variety(a), _default_roadm_variety(b)
    d = Differ(kind, tolerant, notes)
    d.diff(a, b)
    return d.found


# ------------------------------------------------------------------------------------------ python objects

def obj_diff(a, b):
    """first difference between two object graphs built by the loaders, or None (see obj_diffs)"""
    r = obj_diffs(a, b, limit=1)
    return r[0] if r else None


def obj_diffs(a, b, limit=8):
    """differences ('path: what') between two object graphs built by the loaders, at most `limit`, one per path
    with digits masked. Floats must be equal (int == float by value, nan == nan), numpy arrays by value, instances by
    class name and __dict__."""
    import re
    out = []
    seen_sig = set()

    def emit(msg):
        sig = re.sub(r'\d+', '#', msg.split(':')[0])
        if sig not in seen_sig and len(out) < limit:
            seen_sig.add(sig)
            out.append(msg[:1500])

    _obj_walk(a, b, '', 0, set(), emit, lambda: len(out) >= limit)
    return out


def _obj_walk(a, b, path, depth, seen, emit, full):
    import numpy as np
    if depth > 40 or full():
        return
    if isinstance(a, bool) or isinstance(b, bool):
        if a is not b:
            emit(f'{path}: {a!r} != {b!r}')
        return
    if is_number(a) and is_number(b):
        if not (a == b or (isinstance(a, float) and isinstance(b, float) and math.isnan(a) and math.isnan(b))):
            emit(f'{path}: {a!r} != {b!r}')
        return
    if isinstance(a, np.generic) or isinstance(b, np.generic):
        a = a.item() if isinstance(a, np.generic) else a
        b = b.item() if isinstance(b, np.generic) else b
        return _obj_walk(a, b, path, depth + 1, seen, emit, full)
    if isinstance(a, np.ndarray) or isinstance(b, np.ndarray):
        try:
            aa, bb = np.asarray(a), np.asarray(b)
        except Exception:  # noqa
            return emit(f'{path}: array vs {type(b).__name__}')
        if aa.shape != bb.shape:
            return emit(f'{path}: array shape {aa.shape} != {bb.shape}')
        if aa.dtype == object or bb.dtype == object:
            return _obj_walk(aa.tolist(), bb.tolist(), path, depth + 1, seen, emit, full)
        if aa.dtype.kind in 'US' or bb.dtype.kind in 'US':
            if not np.array_equal(aa, bb):
                emit(f'{path}: {aa!r} != {bb!r}')
            return
        if not np.array_equal(aa, bb, equal_nan=True):
            i = int(np.argmax(~((aa == bb) | (np.isnan(aa) & np.isnan(bb)))))
            emit(f'{path}: arrays differ first at flat index {i}: {aa.flat[i]!r} != {bb.flat[i]!r}')
        return
    if a is None or b is None or isinstance(a, str) or isinstance(b, str):
        if not (type(a) is type(b) and a == b):
            emit(f'{path}: {a!r} != {b!r}')
        return
    if isinstance(a, dict) and isinstance(b, dict):
        bmap = {repr(k): v for k, v in b.items()}
        amap = {repr(k): v for k, v in a.items()}
        if set(amap) != set(bmap):
            emit(f'{path}: keys differ: only left {sorted(set(amap) - set(bmap))} only right {sorted(set(bmap) - set(amap))}')
        for k, v in a.items():
            if repr(k) in bmap:
                _obj_walk(v, bmap[repr(k)], f'{path}.{k}' if path else str(k), depth + 1, seen, emit, full)
        return
    if isinstance(a, (list, tuple)) and isinstance(b, (list, tuple)):
        if len(a) != len(b):
            return emit(f'{path}: length {len(a)} != {len(b)}')
        for i, (x, y) in enumerate(zip(a, b)):
            _obj_walk(x, y, f'{path}[{i}]', depth + 1, seen, emit, full)
        return
    if type(a).__name__ != type(b).__name__:
        return emit(f'{path}: type {type(a).__name__} != {type(b).__name__}')
    if hasattr(a, '__dict__'):
        key = (id(a), id(b))
        if key in seen:
            return
        seen.add(key)
        return _obj_walk(vars(a), vars(b), path, depth + 1, seen, emit, full)
    if isinstance(a, (set, frozenset)):
        if a != b:
            emit(f'{path}: {a!r} != {b!r}')
        return
    try:
        same = bool(a == b)
    except Exception:  # noqa
        same = True
    if not same:
        emit(f'{path}: {a!r} != {b!r}')
