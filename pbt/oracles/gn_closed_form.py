"""Reference model for C03: the GN-model closed form, eq. 120 with the psi function of eq. 123 of
P. Poggiolini et al., "A Detailed Analytical Derivation of the GN Model of Non-Linear Interference in Coherent
Optical Transmission Systems", arXiv:1209.0394.

Pure Python: scalar loops, `math.asinh`, `math.exp`; no numpy, no gnpy.

For a cut channel i and a pump channel j (i == j: self-phase term, weight 16/27; i != j: cross-phase term,
weight 2 * 16/27 = 32/27), with R the symbol rate, df_ij = f_j - f_i, alpha the *power* attenuation coefficient
[1/m] (so that the asymptotic length is L_a = 1/alpha and L_eff = (1 - exp(-alpha L)) / alpha), b2 = |mean of the
beta2 of cut and pump|:

    psi_ij = [asinh(pi^2 L_a b2 R_i (df_ij + R_j/2)) - asinh(pi^2 L_a b2 R_i (df_ij - R_j/2))]
             * L_eff^2 / (4 pi b2 L_a)
    eta_ij = gamma_i^2 * w_ij * psi_ij / R_j^2                 (NLI power in the cut channel's bandwidth R_i)
    NLI_i  = P_i * sum_j P_j^2 * eta_ij

The paper has one alpha; where the fibre loss depends on frequency the pump channel's alpha is used (the pump's
power evolution drives the interaction), which is what DESIGN §3 C03 calls the mirrored form.
"""
import math

SPM = 16.0 / 27.0
XPM = 32.0 / 27.0


def eta_matrix(freq, baud, alpha, beta2, gamma, length):
    """eta[i][j] for cut i, pump j. All arguments are lists of Python floats (per channel) except length [m]."""
    n = len(freq)
    leff = [(1.0 - math.exp(-a * length)) / a for a in alpha]
    eta = [[0.0] * n for _ in range(n)]
    pi2 = math.pi ** 2
    for i in range(n):
        g2 = gamma[i] ** 2
        ri = baud[i]
        for j in range(n):
            la = 1.0 / alpha[j]
            b2 = abs((beta2[i] + beta2[j]) / 2.0)
            x = pi2 * la * b2 * ri
            df = freq[j] - freq[i]
            half = baud[j] / 2.0
            psi = (math.asinh(x * (df + half)) - math.asinh(x * (df - half))) * leff[j] ** 2 / (4.0 * math.pi * b2 * la)
            eta[i][j] = g2 * (SPM if i == j else XPM) * psi / baud[j] ** 2
    return eta


def nli(eta, power):
    """NLI_i = P_i * sum_j P_j^2 eta_ij (sum in a fixed order, math.fsum: no cancellation surprises)"""
    p2 = [p * p for p in power]
    return [power[i] * math.fsum(p2[j] * row[j] for j in range(len(power))) for i, row in enumerate(eta)]
