"""Declared precision of every leaf of the gnpy YANG modules, read from the .yang files themselves.

Independent of gnpy/yang/precision_dict.py (the table used by the converters): a small YANG statement parser resolves
`type decimal64 { fraction-digits n; }`, typedefs (also from the IETF modules in yang/ext) and unions, and records
for every leaf the digits per (module, parent container/list name).

digits: n >= 1 decimal64 with n fraction digits; 0 integer type; -1 string/boolean/identityref/empty/int64.
"""
import re
from functools import lru_cache
from pathlib import Path


def _tokenize(s):
    s = re.sub(r'/\*.*?\*/', '', s, flags=re.S)
    out = []
    for m in re.finditer(r'"(?:[^"\\]|\\.)*"|\'[^\']*\'|//[^\n]*|[{};]|[^\s{};"\']+', s):
        t = m.group(0)
        if t.startswith('//'):
            continue
        out.append(t)
    return out


def _parse(tok, i=0):
    stmts = []
    while i < len(tok):
        t = tok[i]
        if t == '}':
            return stmts, i + 1
        kw = t
        i += 1
        arg = None
        if tok[i] not in ('{', ';'):
            arg = tok[i]
            i += 1
            while tok[i] == '+':
                arg = arg.rstrip('"\'') + tok[i + 1].lstrip('"\'')
                i += 2
            arg = arg.strip('"\'')
        if tok[i] == ';':
            stmts.append((kw, arg, []))
            i += 1
        else:
            sub, i = _parse(tok, i + 1)
            stmts.append((kw, arg, sub))
    return stmts, i


def yang_dir():
    import gnpy
    return Path(gnpy.__file__).resolve().parent / 'yang'


@lru_cache(maxsize=None)
def _model():
    root = yang_dir()
    mods = {}
    for f in sorted(root.glob('*.yang')) + sorted((root / 'ext').glob('*.yang')):
        st, _ = _parse(_tokenize(f.read_text(encoding='utf-8')))
        # several revisions of an ext module may exist: the later file (sorted) wins, same typedefs for our use
        mods[st[0][1]] = st[0][2]
    typedefs, groupings, prefixes = {}, {}, {}

    def collect(mod, stmts):
        for kw, arg, sub in stmts:
            if kw == 'typedef':
                typedefs[(mod, arg)] = sub
            elif kw == 'grouping':
                groupings[(mod, arg)] = sub
            collect(mod, sub)
    for m, st in mods.items():
        collect(m, st)
        pre = {}
        for kw, arg, sub in st:
            if kw == 'prefix':
                pre[arg] = m
            elif kw == 'import':
                for k, a, _ in sub:
                    if k == 'prefix':
                        pre[a] = arg
        prefixes[m] = pre

    def resolve(mod, name):
        """(module, local name) of a possibly prefixed reference made inside `mod`"""
        if ':' in name:
            pre, local = name.split(':', 1)
            return prefixes[mod].get(pre, mod), local
        return mod, name

    def describe(mod, arg, sub):
        tmod, base = resolve(mod, arg)
        if base == 'decimal64':
            for k, a, _ in sub:
                if k == 'fraction-digits':
                    return int(a)
            return None
        if base == 'union':
            ds = [describe(mod, a, s) for k, a, s in sub if k == 'type']
            nums = [d for d in ds if d is not None and d >= 0]
            return nums[0] if nums else -1
        if (tmod, base) in typedefs:
            return typeinfo(tmod, typedefs[(tmod, base)])
        if re.fullmatch(r'u?int(8|16|32)', base):
            return 0
        return -1

    def typeinfo(mod, sub):
        for kw, arg, s in sub:
            if kw == 'type':
                return describe(mod, arg, s)
        return -1

    table = {}       # module -> leaf -> {parent: digits}

    def walk(stmts, parent, mod, top):
        for kw, arg, sub in stmts:
            if kw in ('leaf', 'leaf-list'):
                table.setdefault(top, {}).setdefault(arg, {})[parent] = typeinfo(mod, sub)
            elif kw == 'uses':
                gmod, g = resolve(mod, arg)
                if (gmod, g) in groupings:
                    walk(groupings[(gmod, g)], parent, gmod, top)
            elif kw in ('container', 'list'):
                walk(sub, arg, mod, top)
            elif kw in ('choice', 'case', 'augment'):
                walk(sub, parent, mod, top)
    for m, st in mods.items():
        if m.startswith('gnpy-'):
            walk(st, None, m, m)
    return table


MODULE = {'topology': 'gnpy-network-topology', 'equipment': 'gnpy-eqpt-config', 'services': 'gnpy-path-computation',
          'spectrum': 'gnpy-spectrum', 'sim-params': 'gnpy-sim-params', 'edfa-config': 'gnpy-edfa-config'}

_PER_DEGREE = ('per_degree_pch_out_db', 'per_degree_psd_out_mWperGHz', 'per_degree_psd_out_mWperSlotWidth')
_RANGE = ('min_value', 'max_value', 'step')


def yang_leaf(kind, path):
    """Map a path of a LEGACY document (tuple of keys / list indices) to (yang leaf name, yang parent name)."""
    names = [p for p in path if isinstance(p, str)]
    if not names:
        return None, None
    leaf = names[-1]
    parent = names[-2] if len(names) > 1 else None
    last_index = path[-1] if isinstance(path[-1], int) else None
    if kind == 'topology':
        if parent in _PER_DEGREE:                       # {uid: value}
            return parent, 'per_degree_power_targets'
        if parent == 'loss_coef' and leaf == 'value':
            return 'loss_coef_value', 'loss_coef_per_frequency'
        if parent == 'loss_coef' and leaf == 'frequency':
            return 'frequency', 'loss_coef_per_frequency'
        if parent == 'dispersion_per_frequency' and leaf == 'value':
            return 'dispersion', 'dispersion_per_frequency'
        if parent == 'raman_coefficient' and leaf in ('g0', 'frequency_offset'):
            return leaf, 'g0_per_frequency'
    if kind == 'equipment':
        if leaf == 'delta_power_range_db' and last_index is not None:
            return _RANGE[last_index], 'delta_power_range_dict_db'
        if leaf == 'power_range_db' and last_index is not None:
            return _RANGE[last_index], 'power_range_dict_db'
        if leaf == 'nf_coef':
            return 'nf_coef', 'nf_coef'
        if parent == 'raman_efficiency':
            return leaf, 'raman_efficiency'
    if kind == 'edfa-config' and leaf == 'nf_fit_coeff':
        return 'nf_coef', 'nf_fit_coeff'
    if kind == 'spectrum' and parent == 'spectrum':
        return leaf, 'spectrum'
    return leaf, parent


def declared_digits(kind, path):
    """Fraction digits declared by the YANG leaf that carries the legacy value at `path`; None if unknown."""
    leaf, parent = yang_leaf(kind, path)
    if leaf is None:
        return None
    by_parent = _model().get(MODULE[kind], {}).get(leaf)
    if not by_parent:
        return None
    if parent in by_parent:
        return by_parent[parent]
    vals = set(by_parent.values())
    if len(vals) == 1:
        return vals.pop()
    return None
