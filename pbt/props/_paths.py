"""Shared machinery for the path-level properties (C01-B, C02, C05-path, C07): generated designed network,
a transceiver pair, a spectrum, the real request.propagate() with an in-process element recorder.

No source change in gnpy: `Recorder` wraps `__call__` of the element classes at class level for the duration
of one propagation (Python looks `__call__` up on the type), copies the SpectralInformation arrays before and
after and delegates to the original method.
"""
import copy
from hypothesis import strategies as st

from pbt.runner import Check
from pbt.gens import netgen, spectra, bandnets

ELEMENT_CLASSES = ('Transceiver', 'Roadm', 'Fused', 'Fiber', 'RamanFiber', 'Edfa', 'Multiband_amplifier')


def snapshot(si):
    """independent copy of everything a SpectralInformation carries, keyed by position (frequency order)"""
    import numpy as np
    return {
        'f': [float(x) for x in si.frequency],
        'pch': np.array(si.pch, dtype=float), 'signal': np.array(si.signal, dtype=float),
        'ase': np.array(si.ase, dtype=float), 'nli': np.array(si.nli, dtype=float),
        'rs': np.array(si._signal_ratio, dtype=float), 'ra': np.array(si._ase_ratio, dtype=float),
        'rn': np.array(si._nli_ratio, dtype=float),
        'cd': np.array(si.chromatic_dispersion, dtype=float), 'pmd': np.array(si.pmd, dtype=float),
        'pdl': np.array(si.pdl, dtype=float), 'latency': np.array(si.latency, dtype=float),
        'baud': [float(x) for x in si.baud_rate], 'slot': [float(x) for x in si.slot_width],
        'roll': [float(x) for x in si.roll_off], 'label': [str(x) for x in si.label],
        'dp': [float(x) for x in si.delta_pdb_per_channel], 'tx_osnr': [float(x) for x in si.tx_osnr],
        'tx_power': [float(x) for x in si.tx_power],
    }


class Recorder:
    """context manager recording (element, depth, before, after, kwargs) for every element call"""

    def __init__(self):
        self.records = []
        self._saved = {}
        self._depth = 0

    def __enter__(self):
        from gnpy.core import elements
        rec = self

        def make(orig):
            def wrapper(self_el, spectral_info, *a, **kw):
                before = snapshot(spectral_info)
                depth = rec._depth
                rec._depth += 1
                try:
                    out = orig(self_el, spectral_info, *a, **kw)
                finally:
                    rec._depth -= 1
                rec.records.append({'el': self_el, 'kind': type(self_el).__name__, 'uid': self_el.uid, 'depth': depth,
                                    'before': before, 'after': snapshot(out), 'kw': dict(kw)})
                return out
            return wrapper
        for name in ELEMENT_CLASSES:
            cls = getattr(elements, name)
            if '__call__' in cls.__dict__:
                self._saved[cls] = cls.__dict__['__call__']
                setattr(cls, '__call__', make(cls.__dict__['__call__']))
        return self

    def __exit__(self, *exc):
        for cls, orig in self._saved.items():
            setattr(cls, '__call__', orig)
        return False

    def top(self):
        """records of depth 0 in call order"""
        return [r for r in self.records if r['depth'] == 0]


# ------------------------------------------------------------------------------------------------ generator

@st.composite
def path_case(draw, n=(2, 4), raman=False, max_ch=40, multiband=False):
    eq = draw(netgen.equipment(raman_fiber=raman))
    # fused junctions next to RamanFiber spans crash auto-design (owned by C08): keep them apart here
    chain_kw = {'raman': raman, 'fused': not raman, 'fiber_kw': {'lumped': False, 'per_freq_loss': False}}
    topo, truth = draw(netgen.topology(eq, n=n, extra_max=2, chain_kw=chain_kw))
    src = draw(st.integers(0, truth['n'] - 1))
    dst = draw(st.integers(0, truth['n'] - 2))
    if dst >= src:
        dst += 1
    si = eq['SI'][0]
    # ROADM impairment profiles are written for the SI band: with such a library the carriers stay inside it (a carrier that
    # no frequency range of a crossed profile covers has no defined impairment - a library / spectrum mismatch, not judged)
    profiled = any(r.get('roadm-path-impairments') for r in eq['Roadm'])
    lo = int(si['f_min'] / 1e6) - (0 if profiled else draw(st.sampled_from([0, 0, 0, 200000])))
    comb = draw(spectra.comb(1, max_ch, f_start=(lo, int(si['f_max'] / 1e6) - 400000), power=(-6.0, 6.0),
                             f_stop=int(si['f_max'] / 1e6) + (0 if profiled else draw(st.sampled_from([0, 0, 100000])))))
    nli = draw(st.sampled_from(['gn_model_analytic'] * 3 + ['ggn_approx'] * 2))
    # GGN evaluated on a few channels only and interpolated (held at the edge values) for the others; indices <= 3 so that
    # they exist whatever the in-band filter removes from a comb of >= 10 carriers
    computed = draw(st.sampled_from([None, [1, 2], [1, 3], [2, 3]])) if nli == 'ggn_approx' and len(comb) >= 10 else None
    # a RamanFiber can only be propagated with the Raman solver enabled (documented: needs --sim-params with flag true;
    # with the flag off RamanFiber.propagate indexes pump rows that the attenuation-only profile does not have)
    return {'eq': eq, 'topo': topo, 'truth': truth, 'src': src, 'dst': dst, 'comb': comb,
            'sim': {'raman_params': {'flag': bool(raman), 'result_spatial_resolution': 10e3,
                                     'solver_spatial_resolution': 10e3},
                    'nli_params': {'method': nli, 'dispersion_tolerance': 1, 'phase_shift_tolerance': 0.1,
                                   'computed_channels': computed}}}


@st.composite
def band_path_case(draw):
    """paths through networks whose links carry C+L multiband amplifiers (typed, reduced constituents, auto-designed) or
    single-band amplifiers of different bands; carriers in both bands"""
    edges = draw(bandnets.band_edges(same_fmax=draw(st.booleans())))
    if (edges['Lred'][0] + edges['Lred'][1]) / 2 > 189e12:
        edges['Lred'][0] = 187.3e12
    multiband = draw(st.integers(0, 3)) > 0
    classes = ['CL', 'CL', 'CLred', 'CLauto'] if multiband else ['auto', 'C', 'Cred', 'Cshort']
    topo, truth = draw(bandnets.band_topology(classes, edges, n=(2, 3), extra_max=1))
    eq = bandnets.library(edges, 'C', False)
    src = draw(st.integers(0, truth['n'] - 1))
    dst = draw(st.integers(0, truth['n'] - 2))
    if dst >= src:
        dst += 1
    c_lo, c_hi = int(edges['C'][0] / 1e6), int(edges['C'][1] / 1e6)
    comb = draw(spectra.comb(1, 24, f_start=(c_lo, c_lo + 2_000_000), power=(-3.0, 3.0), f_stop=c_hi))
    if multiband and draw(st.booleans()):
        l_lo, l_hi = int(edges['L'][0] / 1e6), int(edges['L'][1] / 1e6)
        comb = comb + draw(spectra.comb(1, 12, f_start=(l_lo, l_lo + 1_000_000), power=(-3.0, 3.0), f_stop=l_hi))
    return {'eq': eq, 'topo': {'elements': topo['elements'], 'connections': topo['connections']},
            'truth': {'n': truth['n'], 'links': truth['links']}, 'src': src, 'dst': dst, 'comb': comb,
            'sim': {'raman_params': {'flag': False, 'result_spatial_resolution': 10e3, 'solver_spatial_resolution': 10e3},
                    'nli_params': {'method': 'gn_model_analytic', 'dispersion_tolerance': 1, 'phase_shift_tolerance': 0.1,
                                   'computed_channels': None}}}


class Prepared:
    pass


def prepare(case, ctx):
    """load + design + route + propagate with the recorder. Returns Prepared or None (labelled) when the case
    does not reach propagation (design/route failures are owned by C08/C11, not by the path properties)."""
    from gnpy.tools.worker_utils import designed_network
    from gnpy.topology.request import compute_constrained_path, propagate
    from gnpy.core.exceptions import ConfigurationError, NetworkTopologyError, EquipmentConfigError, SpectrumError
    netgen.reset_sim_params(case.get('sim'))
    try:
        try:
            equipment, network = netgen.build_network(case['eq'], case['topo'])
            network, req, ref_req = designed_network(
                equipment, network, source=f"trx R{case['src']}", destination=f"trx R{case['dst']}",
                initial_spectrum=spectra.comb_to_carriers(case['comb']))
        except Exception as e:  # noqa  (owned by C08)
            ctx.label('skipped:design-failed:' + type(e).__name__)
            return None
        path = compute_constrained_path(network, req)
        if not path:
            ctx.label('skipped:no-path')
            return None
        p = Prepared()
        p.equipment, p.network, p.req, p.path = equipment, network, req, path
        with Recorder() as rec:
            try:
                p.si = propagate(path, req, equipment)
                p.error = None
            except ValueError as e:
                # documented: no channel inside the amplifiers' common band
                p.si, p.error = None, e
        p.rec = rec
        return p
    finally:
        netgen.reset_sim_params()


# ------------------------------------------------------------------------------------------------ oracles

def fibre_input_above_10dbm(p):
    """the properties are stated for per-channel powers up to +10 dBm into a fibre (far above, the first-order NLI estimate
    exceeds the channel power, which the model does not claim to handle); such a design arises when an operator-set gain
    far beyond the amplifier's range is applied in gain mode"""
    for r in p.rec.records:
        if r['kind'] in ('Fiber', 'RamanFiber') and len(r['before']['pch']) and float(r['before']['pch'].max()) > 10e-3:
            return True
    return False


def _close(a, b, rtol, atol=0.0):
    return abs(a - b) <= rtol * max(abs(a), abs(b)) + atol


def check_decomposition(ctx, snap, where):
    """C01 on one snapshot"""
    import numpy as np
    s, a, n, p = snap['signal'], snap['ase'], snap['nli'], snap['pch']
    tot = s + a + n
    bad = np.abs(tot - p) > 1e-11 * np.abs(p)
    if bad.any():
        i = int(np.argmax(bad))
        ctx.violation('sum-not-total', f'{where}: ch {snap["f"][i]}: s+a+n={tot[i]!r} pch={p[i]!r}')
        return False
    for name in ('rs', 'ra', 'rn'):
        r = snap[name]
        if ((r < -1e-15) | (r > 1 + 1e-12)).any() or not np.isfinite(r).all():
            ctx.violation('share-out-of-range', f'{where}: {name} {r[(r < -1e-15) | (r > 1 + 1e-12) | ~np.isfinite(r)][:3]}')
            return False
    if not np.isfinite(p).all() or (p < 0).any():
        ctx.violation('power-not-finite', f'{where}: {p[:5]}')
        return False
    return True


def run_c01(case, ctx):
    import numpy as np
    p = prepare(case, ctx)
    if p is None:
        return
    if p.error is not None:
        ctx.label('skipped:no-channel-in-band')
        return
    if fibre_input_above_10dbm(p):
        ctx.label('not-judged:fibre-input-above-10dBm')
        return
    kinds = set()
    namp = nfib = 0
    for r in p.rec.records:
        kinds.add(r['kind'])
        if r['depth'] == 0:
            namp += r['kind'] in ('Edfa', 'Multiband_amplifier')
            nfib += r['kind'] in ('Fiber', 'RamanFiber')
        for stage in ('before', 'after'):
            if not check_decomposition(ctx, r[stage], f'{r["kind"]} {r["uid"]} {stage}'):
                return
    # reported figures on the receiver
    trx = p.path[-1]
    last = p.rec.top()[-1]['after']

    def inv(db):
        return 10 ** (-np.asarray(db, dtype=float) / 10)
    S, A, N = last['signal'], last['ase'], last['nli']
    baud = np.array(last['baud'])
    for name, got, want in (('raw_snr', trx.raw_snr, (A + N) / S), ('raw_osnr_ase', trx.raw_osnr_ase, A / S),
                            ('raw_osnr_nli', trx.raw_osnr_nli, N / S),
                            ('raw_snr_01nm', trx.raw_snr_01nm, (A + N) / S * 12.5e9 / baud),
                            ('raw_osnr_ase_01nm', trx.raw_osnr_ase_01nm, A / S * 12.5e9 / baud)):
        g = inv(got)
        if (np.abs(g - want) > 1e-9 * np.maximum(np.abs(g), np.abs(want)) + 1e-300).any():
            ctx.violation('receiver-raw-vs-line', f'{name}: reported 1/x={g[:3]} line={want[:3]}')
            return
    a, o, n = inv(trx.snr), inv(trx.osnr_ase), inv(trx.osnr_nli)
    if (np.abs(a - (o + n)) > 1e-9 * a + 1e-300).any():
        ctx.violation('receiver-identity', f'1/snr={a[:3]} 1/osnr+1/nli={(o + n)[:3]}')
    a01, o01 = inv(trx.snr_01nm), inv(trx.osnr_ase_01nm)
    if (np.abs(a01 - (o01 + n * 12.5e9 / baud)) > 1e-9 * a01 + 1e-300).any():
        ctx.violation('receiver-identity-01nm', f'1/snr01={a01[:3]}')
    # ---- history: a second spectrum (the lower half of the surviving channels) through the very same element objects:
    # every element still hands on exactly the channels it received (a merge must not bring back channels of an earlier call)
    import copy
    from gnpy.topology.request import propagate
    from gnpy.core.info import Carrier
    survivors = sorted(float(f) for f in last['f'])
    keep = set(survivors[:max(1, len(survivors) // 2)])
    if len(keep) < len(survivors) and case.get('comb'):
        req2 = copy.deepcopy(p.req)
        req2.initial_spectrum = {f: c for f, c in spectra.comb_to_carriers(case['comb']).items() if float(f) in keep}
        netgen.reset_sim_params(case.get('sim'))
        try:
            with Recorder() as rec2:
                propagate(p.path, req2, p.equipment)
        finally:
            netgen.reset_sim_params()
        ctx.label('history:second-spectrum-on-used-objects')
        for r in rec2.records:
            extra = sorted(set(r['after']['f']) - set(r['before']['f']))
            if extra:
                ctx.violation('history:channel-appeared-that-was-not-at-the-input',
                              f'{r["kind"]} {r["uid"]}: {len(r["before"]["f"])} channels in, {len(r["after"]["f"])} out, '
                              f'e.g. {extra[:3]}')
                return
            for stage in ('before', 'after'):
                if not check_decomposition(ctx, r[stage], f'second spectrum, {r["kind"]} {r["uid"]} {stage}'):
                    return
    for k in sorted(kinds):
        ctx.label('kind:' + k)
    ctx.label(f'nli:{case["sim"]["nli_params"]["method"]}')
    ctx.nontrivial(namp >= 2 and nfib >= 1 and len(last['f']) >= 2)


# ------------------------------------------------------------------------------------------------ C02

def run_c02(case, ctx):
    """quality never improves along the path; passive elements leave it unchanged"""
    import numpy as np
    p = prepare(case, ctx)
    if p is None:
        return
    if p.error is not None:
        ctx.label('skipped:no-channel-in-band')
        return
    if fibre_input_above_10dbm(p):
        ctx.label('not-judged:fibre-input-above-10dBm')
        return
    kinds = set()
    grew_a = grew_n = False
    for r in p.rec.records:
        b, a = r['before'], r['after']
        kind = r['kind']
        if kind == 'Multiband_amplifier':
            kind_rule = 'amp'
        elif kind == 'Edfa':
            kind_rule = 'amp'
        elif kind in ('Roadm', 'Fused', 'Transceiver'):
            kind_rule = 'passive'
        elif kind == 'Fiber':
            kind_rule = 'fiber'
        else:
            kind_rule = 'raman'
        kinds.add(kind)
        idx = {f: i for i, f in enumerate(b['f'])}
        sel = [idx[f] for f in a['f'] if f in idx]
        if len(sel) != len(a['f']):
            ctx.violation('channel-appeared', f'{kind} {r["uid"]}: output has channels that were not in the input')
            return
        with np.errstate(divide='ignore', invalid='ignore'):
            a_in, n_in = (b['ase'] / b['signal'])[sel], (b['nli'] / b['signal'])[sel]
            a_out, n_out = a['ase'] / a['signal'], a['nli'] / a['signal']
        where = f'{kind} {r["uid"]}'
        if (a_out < a_in * (1 - 1e-12) - 1e-300).any():
            i = int(np.argmax(a_in - a_out))
            ctx.violation(f'osnr-improved:{kind}', f'{where}: ch {a["f"][i]}: ase/signal {a_in[i]!r} -> {a_out[i]!r}')
            return
        if (n_out < n_in * (1 - 1e-12) - 1e-300).any():
            i = int(np.argmax(n_in - n_out))
            ctx.violation(f'snr-nli-improved:{kind}', f'{where}: ch {a["f"][i]}: nli/signal {n_in[i]!r} -> {n_out[i]!r}')
            return
        same_a = (np.abs(a_out - a_in) <= 1e-12 * np.maximum(a_in, a_out)).all()
        same_n = (np.abs(n_out - n_in) <= 1e-12 * np.maximum(n_in, n_out)).all()
        if kind_rule == 'passive' and not (same_a and same_n):
            ctx.violation(f'passive-changed-quality:{kind}', f'{where}: ase/signal {a_in[:3]}->{a_out[:3]}, '
                                                             f'nli/signal {n_in[:3]}->{n_out[:3]}')
            return
        if kind_rule == 'amp' and not same_n:
            ctx.violation(f'amplifier-changed-snr-nli:{kind}', f'{where}: nli/signal {n_in[:3]}->{n_out[:3]}')
            return
        if kind_rule == 'fiber' and not same_a:
            ctx.violation('fiber-changed-osnr', f'{where}: ase/signal {a_in[:3]}->{a_out[:3]}')
            return
        grew_a |= bool((a_out > a_in * (1 + 1e-9)).any())
        grew_n |= bool((n_out > n_in * (1 + 1e-9)).any())
    for k in sorted(kinds):
        ctx.label('kind:' + k)
    ctx.label(f'nli:{case["sim"]["nli_params"]["method"]}', f'raman:{case["sim"]["raman_params"]["flag"]}')
    ctx.nontrivial(len(kinds) >= 3 and grew_a and grew_n)


def make_check(prop):
    if prop == 'C01':
        return Check('B-path', path_case(), run_c01, quick=160, thorough=6000,
                     doc='decomposition after every element of a real propagation + receiver figures')
    if prop == 'C01-multiband':
        return Check('B-path-multiband', band_path_case(), run_c01, quick=300, thorough=10000,
                     doc='same through C+L multiband amplifiers and mixed-band links')
    if prop == 'C02-multiband':
        return Check('path-monotonic-multiband', band_path_case(), run_c02, quick=300, thorough=10000,
                     doc='same through C+L multiband amplifiers and mixed-band links')
    if prop == 'C02':
        return Check('path-monotonic', path_case(), run_c02, quick=320, thorough=8000,
                     doc='per-element, per-channel ASE/signal and NLI/signal ratios never decrease; passive unchanged')
    if prop == 'C02-raman':
        return Check('path-monotonic-raman', path_case(n=(2, 3), raman=True, max_ch=12), run_c02, quick=60, thorough=1200,
                     doc='same with RamanFiber spans and the Raman solver on')
    raise KeyError(prop)


