"""C01 — per-channel power always splits exactly into signal + ASE + NLI (DESIGN §3 C01).

Sub-check A (histories): a generated sequence of the operations an element may apply to a
SpectralInformation, mirrored on an independent reference model that keeps three absolute powers per
frequency as Python floats.
Sub-check B (paths): real propagate() through generated designed networks, decomposition checked after
every element and on the receiver's reported figures (see pbt/props/_paths.py).
"""
import json
import math
from hypothesis import strategies as st

from pbt.runner import Check
from pbt.gens import spectra

PROPERTY = 'C01'
RULE = ('A: Hypothesis-generated comb (1-60 channels, mixed slot/baud/power, shuffled order) and a history of 1-40 '
        'operations (attenuate, gain, add_ase, add_nli, demux into up to 5 parts, mux of all parts in a generated order, '
        'select, receive with 1-5 evaluations of update_snr) executed on the real '
        'SpectralInformation and on a three-powers-per-frequency reference model; non-trivial = history with >=1 '
        'add_ase, >=1 add_nli and >=1 demux followed by a mux. '
        'B: generated designed network + path + spectrum through the real propagate(); non-trivial = path with >=2 '
        'amplifiers, >=1 fibre and >=2 channels. distinct = distinct sha1 of the case JSON.')
ASSUMPTIONS = ['add_nli is a power transfer inside the channel (documented in info.py), add_ase adds power',
               'nli <= channel power (launch <= +10 dBm, as in the property quantifier)']

# ---------------------------------------------------------------- generators

_op = st.one_of(
    st.tuples(st.just('att'), st.floats(0.0, 25.0)),
    st.tuples(st.just('att_pc'), st.integers(0, 2 ** 30)),
    st.tuples(st.just('gain'), st.floats(0.0, 25.0)),
    st.tuples(st.just('gain_pc'), st.integers(0, 2 ** 30)),
    st.tuples(st.just('ase'), st.floats(0.0, 10.0), st.integers(0, 2 ** 30)),
    st.tuples(st.just('ase'), st.floats(0.0, 1e-3), st.integers(0, 2 ** 30)),
    st.tuples(st.just('nli'), st.floats(0.0, 0.5), st.integers(0, 2 ** 30)),
    st.tuples(st.just('nli'), st.floats(0.0, 1e-3), st.integers(0, 2 ** 30)),
    st.tuples(st.just('demux'), st.floats(0.0, 1.0), st.floats(0.0, 1.0)),
    st.tuples(st.just('mux')),
    st.tuples(st.just('demux'), st.floats(0.3, 0.7), st.floats(0.0, 1.0)),
    st.tuples(st.just('demux'), st.floats(0.0, 0.5), st.floats(0.5, 1.0)),
    st.tuples(st.just('select'), st.integers(0, 2 ** 30)),
    st.tuples(st.just('receive'), st.sampled_from([None, 100.0, 40.0, 33.0]), st.sampled_from([None, 41.0, 30.0])),
    # the same received spectrum evaluated several times (what mode exploration does): figures come from the raw ones
    st.tuples(st.just('receive2'), st.lists(st.tuples(st.sampled_from([None, 100.0, 40.0, 33.0]),
                                                      st.sampled_from([None, 41.0, 30.0])), min_size=2, max_size=4)),
    st.tuples(st.just('mux'), st.integers(0, 2 ** 30)),
)


@st.composite
def history_case(draw):
    chans = draw(spectra.comb(1, 60))
    ops = draw(st.one_of(st.lists(_op, min_size=1, max_size=40), st.lists(_op, min_size=15, max_size=40)))
    return {'comb': chans, 'ops': [list(o) for o in ops]}


def _vec(seed, n, lo, hi):
    """deterministic per-channel vector derived from a generated integer (keeps the case compact)"""
    out = []
    x = seed % 2147483647 or 1
    for _ in range(n):
        x = (x * 48271) % 2147483647
        out.append(lo + (hi - lo) * (x / 2147483647))
    return out


# ---------------------------------------------------------------- oracle

def _close(a, b, rtol, atol=0.0):
    return abs(a - b) <= rtol * max(abs(a), abs(b)) + atol


def compare(ctx, si, model, steps, where):
    """Compare a SpectralInformation with the reference model {f: [S, A, N]}"""
    rtol = 1e-12 * (steps + 2)
    freqs = [float(f) for f in si.frequency]
    if sorted(model) != freqs:
        ctx.violation('channel-set', f'{where}: frequencies {freqs[:5]}.. vs model {sorted(model)[:5]}..')
        return
    pch, sig, ase, nli = si.pch, si.signal, si.ase, si.nli
    rs, ra, rn = si._signal_ratio, si._ase_ratio, si._nli_ratio
    with_np = __import__('numpy')
    with with_np.errstate(divide='ignore', invalid='ignore'):
        inv_gsnr = 1 / si.gsnr
        inv_osnr = 1 / si.snr_lin
        inv_nli = 1 / si.snr_nli
    for i, f in enumerate(freqs):
        S, A, N = model[f]
        tot = S + A + N
        if not _close(float(sig[i] + ase[i] + nli[i]), float(pch[i]), rtol):
            ctx.violation('sum-not-total', f'{where}: ch {f}: s+a+n={sig[i] + ase[i] + nli[i]!r} pch={pch[i]!r}')
            return
        for name, r in (('signal', rs[i]), ('ase', ra[i]), ('nli', rn[i])):
            if not (-1e-15 <= float(r) <= 1 + 1e-12):
                ctx.violation('share-out-of-range', f'{where}: ch {f}: {name} ratio {r!r}')
                return
        if not _close(float(pch[i]), tot, rtol):
            ctx.violation('power-vs-model', f'{where}: ch {f}: pch={pch[i]!r} model={tot!r}')
            return
        for name, got, want in (('signal', sig[i], S), ('ase', ase[i], A), ('nli', nli[i], N)):
            if not _close(float(got), want, rtol, atol=1e-15 * tot):
                ctx.violation(f'{name}-vs-model', f'{where}: ch {f}: {name}={got!r} model={want!r}')
                return
        # 1/GSNR = 1/OSNR + 1/SNR_NLI as noise-to-signal ratios (finite zeros at launch)
        if S > 0:
            want = (A + N) / S
            if not _close(float(inv_gsnr[i]), float(inv_osnr[i]) + float(inv_nli[i]), 1e-12, 1e-300) or \
                    not _close(float(inv_gsnr[i]), want, rtol, 1e-300):
                ctx.violation('gsnr-identity', f'{where}: ch {f}: 1/gsnr={inv_gsnr[i]!r} '
                                               f'1/osnr+1/nli={inv_osnr[i] + inv_nli[i]!r} model={want!r}')
                return


def check_receiver(ctx, trx, si, model, tx_osnr, add_drop, where, more=()):
    """Reported dB figures of a Transceiver obey the identity, before and after update_snr."""
    import numpy as np
    freqs = [float(f) for f in si.frequency]

    def inv(db):
        return 10 ** (-np.asarray(db, dtype=float) / 10)
    # raw figures against the model
    for i, f in enumerate(freqs):
        S, A, N = model[f]
        if S <= 0:
            continue
        for name, got, want in (('raw_snr', trx.raw_snr[i], (A + N) / S), ('raw_osnr_ase', trx.raw_osnr_ase[i], A / S),
                                ('raw_osnr_nli', trx.raw_osnr_nli[i], N / S)):
            g = float(inv(got))
            if not _close(g, want, 1e-9, 1e-300):
                ctx.violation('receiver-raw-vs-model', f'{where}: ch {f}: {name} 1/x={g!r} model={want!r}')
                return
        b = float(si.baud_rate[i])
        if not _close(float(inv(trx.raw_snr_01nm[i])), (A + N) / S * 12.5e9 / b, 1e-9, 1e-300):
            ctx.violation('receiver-raw-vs-model', f'{where}: ch {f}: raw_snr_01nm')
            return
    first = {}
    stages = [('raw', None)] + [(f'updated#{k}', args) for k, args in enumerate([(tx_osnr, add_drop)] + list(more))]
    for stage, args in stages:
        if args is not None:
            tx, ad = args
            trx.update_snr(tx, ad)
            # an evaluation depends on the raw figures and its own arguments only, not on earlier evaluations
            key = json.dumps([tx, ad])
            now = [np.array(getattr(trx, k), dtype=float).tolist() for k in ('snr', 'osnr_ase', 'snr_01nm', 'osnr_ase_01nm')]
            if key in first and first[key] != now:
                ctx.violation('receiver-evaluation-depends-on-history', f'{where}/{stage}: update_snr{tuple(args)} gave '
                                                                        f'{first[key][0][:2]} then {now[0][:2]}')
                return
            first.setdefault(key, now)
        a, o, n = inv(trx.snr), inv(trx.osnr_ase), inv(trx.osnr_nli)
        for i, f in enumerate(freqs):
            if not _close(float(a[i]), float(o[i] + n[i]), 1e-9, 1e-300):
                ctx.violation('receiver-identity', f'{where}/{stage}: ch {f}: 1/snr={a[i]!r} '
                                                   f'1/osnr+1/nli={o[i] + n[i]!r}')
                return
        # 0.1 nm variants: same identity once the NLI term is referred to 12.5 GHz
        a01, o01 = inv(trx.snr_01nm), inv(trx.osnr_ase_01nm)
        for i, f in enumerate(freqs):
            n01 = float(n[i]) * 12.5e9 / float(si.baud_rate[i])
            if not _close(float(a01[i]), float(o01[i]) + n01, 1e-9, 1e-300):
                ctx.violation('receiver-identity-01nm', f'{where}/{stage}: ch {f}')
                return


def run_history(case, ctx):
    import numpy as np
    from gnpy.core.info import demuxed_spectral_information, muxed_spectral_information, select_channels, is_in_band
    from gnpy.core.elements import Transceiver
    from gnpy.core.utils import dbm2watt

    chans = case['comb']
    si = spectra.comb_to_si(chans)
    model = {c['f']: [float(dbm2watt(c['p_dbm'])), 0.0, 0.0] for c in chans}
    meta = {c['f']: (c['baud'], c['slot'], c['label'], c['roll'], c['dp'], c['tx_osnr']) for c in chans}
    parts = []          # [(SpectralInformation, model)] split off by demux and not yet merged back
    frozen = []         # [(SpectralInformation, model snapshot, steps, what)]: earlier points of the history, re-checked
    max_parts = 0
    compare(ctx, si, model, 0, 'launch')
    seen = set()
    muxed_after_demux = False
    steps = 0
    for step, op in enumerate(case['ops']):
        kind = op[0]
        n = si.number_of_channels
        freqs = [float(f) for f in si.frequency]
        steps += 1
        if kind in ('att', 'gain'):
            x = op[1]
            (si.apply_attenuation_db if kind == 'att' else si.apply_gain_db)(x)
            k = 10 ** ((-x if kind == 'att' else x) / 10)
            for f in freqs:
                model[f] = [v * k for v in model[f]]
        elif kind in ('att_pc', 'gain_pc'):
            v = _vec(op[1], n, 0.0, 20.0)
            (si.apply_attenuation_db if kind == 'att_pc' else si.apply_gain_db)(np.array(v))
            for f, x in zip(freqs, v):
                k = 10 ** ((-x if kind == 'att_pc' else x) / 10)
                model[f] = [m * k for m in model[f]]
        elif kind == 'ase':
            fac = _vec(op[2], n, 0.0, op[1])
            ase = np.array([fac[i] * sum(model[f]) for i, f in enumerate(freqs)])
            si.add_ase(ase)
            for i, f in enumerate(freqs):
                model[f][1] += float(ase[i])
        elif kind == 'nli':
            fac = _vec(op[2], n, 0.0, op[1])
            nli = np.array([fac[i] * float(si.pch[i]) for i, f in enumerate(freqs)])
            si.add_nli(nli)
            for i, f in enumerate(freqs):
                S, A, N = model[f]
                r = float(nli[i]) / (S + A + N)
                model[f] = [S * (1 - r), A * (1 - r), N * (1 - r) + float(nli[i])]
        elif kind == 'demux':
            if len(parts) >= 4:
                continue
            lo_f, hi_f = min(freqs), max(freqs)
            span = hi_f - lo_f + 200e9
            a, b = sorted((op[1], op[2]))
            band = {'f_min': lo_f - 100e9 + a * span, 'f_max': lo_f - 100e9 + b * span}
            inside = [f for f in freqs if f - meta[f][1] / 2 >= band['f_min'] and f + meta[f][1] / 2 <= band['f_max']]
            got = demuxed_spectral_information(si, band)
            if not inside:
                if got is not None:
                    ctx.violation('demux-selection', f'step {step}: band {band} expected no channel, got '
                                                     f'{got.frequency}')
                continue
            if got is None:
                ctx.violation('demux-selection', f'step {step}: band {band} expected {inside}, got None')
                return
            mask = is_in_band(si.frequency, si.slot_width, band)
            if len(inside) < n:
                parts.append((select_channels(si, ~mask), {f: model[f] for f in freqs if f not in inside}))
            else:
                parts.append((None, {}))
            # the spectrum that was split stays a valid point of the propagation: later operations on its parts must not
            # reach back into it (splitting returns new, independent spectra)
            frozen.append((si, {f: list(v) for f, v in model.items()}, steps, f'spectrum split at step {step}'))
            del frozen[:-3]
            model = {f: model[f] for f in inside}
            si = got
        elif kind == 'mux':
            if not parts:
                continue
            real = [(si, model)] + [(x, m) for x, m in parts if x is not None]
            max_parts = max(max_parts, len(real))
            # merge all parts at once, in an order derived from the generated integer (any order is a valid call)
            keys = _vec(op[1] if len(op) > 1 else len(case['ops']), len(real), 0.0, 1.0)
            order = [i for _, i in sorted(zip(keys, range(len(real))))]
            if len(real) > 1:
                si = muxed_spectral_information([real[i][0] for i in order])
                model = {f: v for i in order for f, v in real[i][1].items()}
            parts = []
            if 'demux' in seen:
                muxed_after_demux = True
        elif kind == 'select':
            keep = [x > 0.3 for x in _vec(op[1], n, 0.0, 1.0)]
            if not any(keep):
                keep[0] = True
            si = select_channels(si, np.array(keep))
            model = {f: model[f] for f, k in zip(freqs, keep) if k}
        elif kind in ('receive', 'receive2'):
            trx = Transceiver(uid='rx')
            out = trx(si)
            if out is not si:
                ctx.violation('receiver-returns-other-object', '')
            if kind == 'receive':
                check_receiver(ctx, trx, si, model, op[1], op[2], f'step {step}')
            else:
                evals = [tuple(e) for e in op[1]]
                check_receiver(ctx, trx, si, model, evals[0][0], evals[0][1], f'step {step}', more=evals[1:] + evals[:1])
        seen.add(kind)
        compare(ctx, si, model, steps, f'step {step} {kind}')
        for old_si, old_model, old_steps, what in frozen:
            n_before = len(ctx.violations)
            compare(ctx, old_si, old_model, old_steps, f'{what}, looked at again after step {step} {kind}')
            if len(ctx.violations) > n_before:
                sig, detail = ctx.violations[-1]
                ctx.violations[-1] = ('earlier-spectrum-changed-by-later-operation:' + sig, detail)
                return
        # per-channel data travels with its frequency
        for i, f in enumerate(si.frequency):
            b, s, lab, roll, dp, txo = meta[float(f)]
            if (float(si.baud_rate[i]), float(si.slot_width[i]), str(si.label[i]), float(si.roll_off[i]),
                    float(si.delta_pdb_per_channel[i]), float(si.tx_osnr[i])) != (b, s, lab, roll, dp, txo):
                ctx.violation('channel-data-misplaced', f'step {step} {kind}: ch {f}')
                return
        if ctx.violations:
            return
    for k in seen:
        ctx.label('op:' + k)
    ctx.label('nch:' + ('1' if len(chans) == 1 else '2-10' if len(chans) <= 10 else '11+'))
    ctx.nontrivial('ase' in seen and 'nli' in seen and muxed_after_demux)
    if muxed_after_demux:
        ctx.label('demux-then-mux')
    ctx.label(f'parts-merged:{min(max_parts, 4)}')


FLOORS = {'A-history:parts-merged:3': (0.03, 'A-history'), 'A-history:op:receive2': (0.1, 'A-history')}

CHECKS = [
    Check('A-history', history_case(), run_history, quick=3000, thorough=60000,
          doc='operation histories on SpectralInformation vs three-power reference model'),
]

try:
    from pbt.props import _paths
    CHECKS.append(_paths.make_check('C01'))
    CHECKS.append(_paths.make_check('C01-multiband'))
except ImportError:
    pass
