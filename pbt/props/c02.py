"""C02 — signal quality never improves along a path; passive elements leave it unchanged (DESIGN §3 C02)."""
from pbt.props import _paths

PROPERTY = 'C02'
RULE = ('Hypothesis-generated equipment library + mesh topology (2-4 ROADMs, fused junctions, user amplifiers with '
        'full/partial/no settings, any amplifier model) designed by the real auto-design, a transceiver pair and a '
        'generated comb propagated by the real propagate() under an in-process element recorder; NLI method '
        'gn_model_analytic or ggn_approx; a second sub-check adds RamanFiber spans with the Raman solver on. '
        'Non-trivial = path crossing >=3 element kinds with >=1 element where ASE/signal strictly grows and >=1 where '
        'NLI/signal strictly grows; distinct = sha1 of the case JSON.')
ASSUMPTIONS = ['ratios compared per channel matched by frequency, tolerance 1e-12 relative (pure float rounding)',
               'design/routing failures are not judged here (owned by C08/C11)']
CHECKS = [_paths.make_check('C02'), _paths.make_check('C02-raman'), _paths.make_check('C02-multiband')]
