"""C03 — fibre NLI equals the GN-model closed form and obeys its scaling laws (DESIGN §3 C03).

One generated case = (fibre, WDM comb in a generated order, common power factor k, index of the channel regarded as
"added", channel whose power is raised and by how much).  On every case the real `NliSolver.compute_nli`
(method gn_model_analytic, Raman off) is compared with
  * the closed form of arXiv:1209.0394 eq. 120/123 re-implemented with scalar loops (pbt/oracles/gn_closed_form.py),
    fed with the fibre's own alpha(f), beta2(f), gamma(f) accessor values            rtol 1e-9 (probe: 1.4e-14)
  * NLI >= 0
  * powers x k  =>  NLI x k^3                                                          rtol 1e-10
  * comb with one more channel / one channel raised: no channel's NLI decreases        rtol 1e-12
  * any order of the supplied arrays: identical per-frequency NLI                      exact
  * end to end: after Fiber.__call__ on a noise-free input, nli/pch of every channel equals the reference NLI
    evaluated on the powers behind con_in + att_in, divided by that power              rtol 1e-9
  * gamma(f_ref) equals the user's gamma when only gamma is given                      rtol 1e-12
"""
import math
from hypothesis import strategies as st

from pbt.runner import Check
from pbt.gens import spectra, fibres
from pbt.oracles import gn_closed_form

PROPERTY = 'C03'
RULE = ('Hypothesis-generated fibre (length 0.1-300 km log-uniform or typical, scalar or per-frequency loss 0.12-0.4 '
        'dB/km, dispersion of either sign as scalar / scalar+slope / per-frequency table, gamma / effective area / '
        'both / default, connectors, padding, default or explicit reference wavelength/frequency) x comb (1-120 '
        'channels from pbt.gens.spectra.comb: uniform or mixed slot/baud/power, gaps, presented in a generated '
        'permutation) x power factor k in [0.1,10] x added-channel index x raised channel (+0.1..10 dB). '
        'non-trivial = >=2 channels and (>=2 distinct baud rates or non-uniform spacing or >=2 distinct powers); '
        'distinct = distinct sha1 of the case JSON.')
ASSUMPTIONS = ['alpha(f), beta2(f), gamma(f) of the fibre are taken from the Fiber accessors (anchored by the property '
               'as "used by the model"); only gamma(f_ref) == user gamma is checked on them',
               'for per-frequency loss the pump channel\'s alpha enters psi_ij (the paper has a single alpha): class '
               'labelled loss:per-frequency(mirrored-form)',
               'beta2 of cut and pump are averaged (the paper has a single beta2)',
               'lumped losses, the Raman flag and computed_channels settings are not inputs of the closed form: generated, and '
               'required not to change the result of the analytic method']

# Observation, deliberately NOT judged (DESIGN: "when only gamma is given"): if a fibre carries both effective_area and
# gamma, Fiber.gamma(f) is derived from effective_area alone and the user's gamma never reaches the NLI model, although
# docs/json.rst says gamma is only *derived* "if not provided".  Flip to True to turn the observation into a violation.
JUDGE_GAMMA_WHEN_AREA_ALSO_GIVEN = False

RTOL_REF = 1e-9
RTOL_SCALE = 1e-10
RTOL_MONO = 1e-12


@st.composite
def cases(draw):
    chans = draw(st.one_of(spectra.comb(1, 12), spectra.comb(2, 40), spectra.comb(2, 40), spectra.comb(30, 120)))
    f_lo, f_hi = fibres.band_of(chans)
    # lumped losses, the Raman flag and the GGN "computed channels" settings are no inputs of the closed form: the analytic
    # method must give the same result with them (the formula uses the fibre's own loss coefficient and length)
    fib = draw(fibres.fibre(f_lo, f_hi, channel_freqs=[c['f'] for c in chans], lumped=draw(st.integers(0, 3)) == 0))
    n = len(chans)
    sim = {'raman': n <= 24 and draw(st.integers(0, 5)) == 0,
           'computed_channels': draw(st.sampled_from([None, None, None, [1], [1, 2], [1, 3, 5]])),
           'computed_number_of_channels': draw(st.sampled_from([None, None, None, 2, 3]))}
    return {'comb': chans, 'fiber': fib, 'sim': sim,
            'k': draw(st.one_of(st.sampled_from([0.1, 2.0, 10.0]), st.floats(0.1, 10.0))),
            'added': draw(st.integers(0, n - 1)),
            'raised': [draw(st.integers(0, n - 1)), draw(st.floats(0.1, 10.0))]}


def _code_nli(chans, fib_params, powers, order=None):
    """the real code: {frequency: NLI [W]} for the comb with the given launch powers"""
    from gnpy.core.science_utils import NliSolver, RamanSolver
    si = fibres.si_from(chans, powers, order)
    fib = fibres.make_fiber(fib_params)
    srs = RamanSolver.calculate_stimulated_raman_scattering(si, fib)   # as Fiber.propagate does (Raman off)
    nli = NliSolver.compute_nli(si, srs, fib)
    return {float(f): float(x) for f, x in zip(si.frequency, nli)}


def _close(a, b, rtol):
    return abs(a - b) <= rtol * max(abs(a), abs(b))


def run(case, ctx):
    from gnpy.core.parameters import SimParams
    SimParams.set_params({})
    try:
        _run(case, ctx)
    finally:
        SimParams.set_params({})


def _run(case, ctx):
    from gnpy.core.parameters import SimParams
    sim = case.get('sim') or {}
    nli_params = {'method': 'gn_model_analytic'}
    for k in ('computed_channels', 'computed_number_of_channels'):
        if sim.get(k) is not None:
            nli_params[k] = sim[k]
            ctx.label('sim:' + k)
    raman = {'flag': True, 'result_spatial_resolution': 10e3, 'solver_spatial_resolution': 2e3} if sim.get('raman') \
        else {'flag': False}
    if sim.get('raman'):
        ctx.label('sim:raman-flag-on')
    SimParams.set_params({'nli_params': nli_params, 'raman_params': raman})
    chans, fp = case['comb'], case['fiber']
    if fp.get('lumped_losses'):
        ctx.label('fibre:lumped-losses')
    n = len(chans)
    powers = [1e-3 * 10 ** (c['p_dbm'] / 10) for c in chans]
    by_f = sorted(range(n), key=lambda i: chans[i]['f'])
    freqs = [chans[i]['f'] for i in by_f]

    # ---- classes
    per_freq_loss = isinstance(fp['loss_coef'], dict)
    ctx.label('nch:' + ('1' if n == 1 else '2-10' if n <= 10 else '11-40' if n <= 40 else '41-120'))
    ctx.label('loss:per-frequency(mirrored-form)' if per_freq_loss else 'loss:scalar')
    disp_kind = ('per-frequency' if 'dispersion_per_frequency' in fp else 'slope' if 'dispersion_slope' in fp
                 else 'scalar')
    ctx.label('dispersion:' + disp_kind)
    dvals = fp['dispersion_per_frequency']['value'] if disp_kind == 'per-frequency' else [fp['dispersion']]
    ctx.label('dispersion-sign:' + ('negative' if dvals[0] < 0 else 'positive'))
    gkind = ('both' if 'gamma' in fp and 'effective_area' in fp else 'gamma' if 'gamma' in fp
             else 'effective_area' if 'effective_area' in fp else 'default')
    ctx.label('nonlinearity:' + gkind)
    ctx.label('ref:' + ('wavelength' if 'ref_wavelength' in fp else 'frequency' if 'ref_frequency' in fp else 'default'))
    bauds = {c['baud'] for c in chans}
    spacings = {round(freqs[i + 1] - freqs[i]) for i in range(n - 1)}
    mixed_baud, nonuniform, mixed_power = len(bauds) > 1, len(spacings) > 1, len({c['p_dbm'] for c in chans}) > 1
    if mixed_baud:
        ctx.label('mixed-baud')
    if nonuniform:
        ctx.label('non-uniform-spacing')
    if mixed_power:
        ctx.label('mixed-power')
    if by_f != list(range(n)):
        ctx.label('presented-unsorted')
    ctx.nontrivial(n >= 2 and (mixed_baud or nonuniform or mixed_power))

    # ---- the code under test on the case itself
    got = _code_nli(chans, fp, powers)
    if sorted(got) != freqs:
        ctx.violation('compute_nli:channel-set', f'{sorted(got)[:4]}.. vs {freqs[:4]}..')
        return

    # ---- reference model (accessor values as inputs; scalar calls so that no array ordering is involved)
    fib = fibres.make_fiber(fp)
    alpha = [float(fib.alpha(f)) for f in freqs]
    beta2 = [float(fib.beta2(f)) for f in freqs]
    gamma = [float(fib.gamma(f)) for f in freqs]
    length = float(fib.params.length)
    if not math.isclose(length, fp['length'] * 1e3, rel_tol=1e-12):
        ctx.violation('FiberParams:length', f'{length} m for {fp["length"]} km')
    if gkind == 'gamma' and not math.isclose(float(fib.gamma()), fp['gamma'], rel_tol=1e-12):
        ctx.violation('Fiber.gamma:differs-from-user-gamma-at-ref-frequency', f'{float(fib.gamma())!r} vs {fp["gamma"]!r}')
    if gkind == 'both' and not math.isclose(float(fib.gamma()), fp['gamma'], rel_tol=1e-12):
        ctx.label('observation:user-gamma-overridden-by-effective-area')
        if JUDGE_GAMMA_WHEN_AREA_ALSO_GIVEN:
            ctx.violation('Fiber.gamma:user-gamma-ignored-when-effective-area-also-given',
                          f'{float(fib.gamma())!r} vs {fp["gamma"]!r} (effective_area {fp["effective_area"]!r})')
    if disp_kind == 'slope':
        # a fibre given by D and its slope S at the reference wavelength: D(lambda) = D + S (lambda - lambda_ref) is the
        # definition of the dispersion slope, and beta2 = - lambda^2 D(lambda) / (2 pi c)
        c0 = 299792458.0
        lam_ref = fp.get('ref_wavelength') or c0 / fp.get('ref_frequency', c0 / 1550e-9)
        for f, b2 in zip(freqs, beta2):
            lam = c0 / f
            want = -(lam ** 2) * (fp['dispersion'] + fp['dispersion_slope'] * (lam - lam_ref)) / (2 * math.pi * c0)
            if not math.isclose(b2, want, rel_tol=1e-9):
                ctx.violation('Fiber.beta2:differs-from-D-plus-slope-times-wavelength-offset',
                              f'ch {f}: beta2 {b2!r}, D + S (lambda - lambda_ref) gives {want!r}')
                break
    eta = gn_closed_form.eta_matrix(freqs, [chans[i]['baud'] for i in by_f], alpha, beta2, gamma, length)
    p_sorted = [powers[i] for i in by_f]
    ref = gn_closed_form.nli(eta, p_sorted)
    suffix = '(per-frequency-loss)' if per_freq_loss else ''
    for f, r in zip(freqs, ref):
        if not (got[f] >= 0):
            ctx.violation('compute_nli:negative-or-nan', f'ch {f}: {got[f]!r}')
            return
        if not _close(got[f], r, RTOL_REF):
            ctx.violation('compute_nli:differs-from-closed-form' + suffix,
                          f'ch {f} (of {n}): code {got[f]!r} reference {r!r} rel {abs(got[f] - r) / r:.3e}')
            return

    # ---- cubic scaling with a common power factor
    k = case['k']
    got_k = _code_nli(chans, fp, [p * k for p in powers])
    for f in freqs:
        if not _close(got_k[f], got[f] * k ** 3, RTOL_SCALE):
            ctx.violation('compute_nli:not-cubic-in-common-power-factor',
                          f'ch {f}: k={k!r} NLI(kP)={got_k[f]!r} k^3 NLI(P)={got[f] * k ** 3!r}')
            return

    # ---- monotone: the comb without channel `added` never has more NLI on the remaining channels
    a = case['added']
    if n >= 2:
        keep = [i for i in range(n) if i != a]
        base = _code_nli([chans[i] for i in keep], fp, [powers[i] for i in keep])
        for f, v in base.items():
            if got[f] < v * (1 - RTOL_MONO):
                ctx.violation('compute_nli:adding-a-channel-lowers-nli',
                              f'ch {f}: without {chans[a]["f"]}: {v!r} with: {got[f]!r}')
                return
    # ---- monotone: raising one channel's power never lowers any channel's NLI
    q, up_db = case['raised']
    raised = list(powers)
    raised[q] = powers[q] * 10 ** (up_db / 10)
    got_r = _code_nli(chans, fp, raised)
    for f in freqs:
        if got_r[f] < got[f] * (1 - RTOL_MONO):
            ctx.violation('compute_nli:raising-a-power-lowers-nli',
                          f'ch {f}: raised {chans[q]["f"]} by {up_db} dB: {got[f]!r} -> {got_r[f]!r}')
            return
    # ... and by exactly what the closed form says (two-sided form of the same law)
    p_r = [raised[i] for i in by_f]
    for f, r in zip(freqs, gn_closed_form.nli(eta, p_r)):
        if not _close(got_r[f], r, RTOL_REF):
            ctx.violation('compute_nli:differs-from-closed-form' + suffix,
                          f'after raising {chans[q]["f"]} by {up_db} dB: ch {f}: code {got_r[f]!r} reference {r!r}')
            return

    # ---- the same spectrum given as a list of carriers (the user-facing entry point, a dict keyed by frequency filled in the
    # presented / sorted / reversed order): same NLI per frequency
    from gnpy.core.info import Carrier, carriers_to_spectral_information
    from gnpy.core.science_utils import NliSolver, RamanSolver
    for name, order in (('presented', list(range(n))), ('sorted', by_f), ('reversed', by_f[::-1])):
        carriers = {chans[i]['f']: Carrier(delta_pdb=0.0, baud_rate=chans[i]['baud'], slot_width=chans[i]['slot'],
                                           roll_off=chans[i]['roll'], tx_osnr=chans[i]['tx_osnr'], tx_power=powers[i],
                                           label=chans[i]['label']) for i in order}
        si_c = carriers_to_spectral_information(carriers, power=1e-3)
        fib_c = fibres.make_fiber(fp)
        nli_c = NliSolver.compute_nli(si_c, RamanSolver.calculate_stimulated_raman_scattering(si_c, fib_c), fib_c)
        alt = {float(f): float(x) for f, x in zip(si_c.frequency, nli_c)}
        bad = next((f for f in freqs if f not in alt or not _close(alt[f], got[f], 1e-12)), None)
        if bad is not None:
            ctx.violation('compute_nli:carrier-list-gives-another-result',
                          f'{name} order: ch {bad}: {alt.get(bad)!r} vs {got[bad]!r}')
            return
    # ---- order of the supplied arrays is irrelevant (exact)
    for name, order in (('sorted', by_f), ('reversed', list(range(n))[::-1])):
        alt = _code_nli(chans, fp, powers, order)
        if alt != got:
            bad = next(f for f in freqs if alt.get(f) != got[f])
            ctx.violation('compute_nli:depends-on-supplied-channel-order',
                          f'{name} order: ch {bad}: {alt.get(bad)!r} vs {got[bad]!r}')
            return

    # ---- end to end through Fiber.__call__
    si = fibres.si_from(chans, powers)
    fib2 = fibres.make_fiber(fp)
    si = fib2(si)
    att = 10 ** (-(fp['con_in'] + fp['att_in']) / 10)
    ref_in = gn_closed_form.nli(eta, [p * att for p in p_sorted])
    ratio = [float(x) for x in si._nli_ratio]
    nli_out, pch_out = [float(x) for x in si.nli], [float(x) for x in si.pch]
    for i, f in enumerate(freqs):
        want = ref_in[i] / (p_sorted[i] * att)
        if float(si.frequency[i]) != f:
            ctx.violation('Fiber.__call__:channel-set', f'{si.frequency[i]} vs {f}')
            return
        if not _close(ratio[i], want, RTOL_REF) or not _close(nli_out[i], want * pch_out[i], RTOL_REF):
            ctx.violation('Fiber.__call__:nli-share-differs-from-closed-form' + suffix,
                          f'ch {f}: nli/pch {ratio[i]!r} (nli {nli_out[i]!r} pch {pch_out[i]!r}) reference {want!r}')
            return


CHECKS = [
    Check('gn', cases(), run, quick=2000, thorough=80000,
          doc='compute_nli / Fiber.__call__ vs scalar closed form, cubic scaling, monotonicity, order invariance'),
]

FLOORS = {
    'gn:loss:per-frequency(mirrored-form)': (0.08, 'gn'),
    'gn:dispersion:slope': (0.08, 'gn'),
    'gn:dispersion:per-frequency': (0.08, 'gn'),
    'gn:mixed-baud': (0.08, 'gn'),
    'gn:nch:41-120': (0.03, 'gn'),
}
