"""C04 — amplifier applies its set gain, the quantum-limited ASE, and never exceeds p_max (DESIGN §3 C04).

One generated case = an amplifier library entry (generated through the real loader, or copied from a library
shipped in gnpy/example-data) x operational settings x an input spectrum (inside / across / outside the band,
optionally already carrying ASE and NLI) x a saturation regime.  The amplifier is built exactly as
`gnpy.core.network.edfa_nf` and the repository tests do and called once; everything is then re-derived with
plain `math` from the case JSON:

 1. effective_gain == min(set gain, p_max - total input power after the input VOA)                      (1e-9 dB)
 2. power-weighted total gain before the output VOA == effective gain: 1e-9 dB when the applied gain profile is
    flat, otherwise within the accuracy of the 3-point DGT normalisation (calibrated, see GAIN_TOL);
    hence amplified input power <= p_max + same tolerance;
    metamorphic: the same total power spread over another number of channels gives the same effective gain
 3. ASE added, referred to the input, == h.f.baud.10^(NF/10) with the reported per-channel NF       (rtol 1e-9)
 4. reported NF == the documented model of the entry's type_def, re-derived here (see _expected_nf)
 5. output channel set == input channels whose whole slot lies inside [f_min, f_max]; none => ValueError
"""
import copy
import json
import math
from pathlib import Path

from hypothesis import strategies as st

from pbt.runner import Check
from pbt.gens import netgen, spectra

PROPERTY = 'C04'
RULE = ('amp: amplifier entry (generated variable_gain / fixed_gain / advanced_model / openroadm{,_preamp,_booster} / '
        'dual_stage of any two of the former / multi_band C+L, or one of the entries shipped in gnpy/example-data) '
        'through the real loader; gain in [gain_min-6, gain_flatmax+4], tilt 0 or [-4,4], in/out VOA; comb of 1-100 '
        'channels of mixed slot/baud/power placed inside, across or outside the amplifier band, optionally carrying '
        'ASE/NLI; total in-band input power placed relative to p_max - gain so that ~1/3 of the cases saturate. '
        'Non-trivial = saturated, or tilt != 0, or gain outside [gain_min, gain_flatmax], or >=2 in-band channels of '
        'different baud rate. distinct = distinct sha1 of the case JSON.')
ASSUMPTIONS = [
    'total power entering the clamp rule is signal+ASE+NLI inside the channels (what the amplifier sees)',
    'gain/tilt/out_voa are numeric as after auto-design (None is replaced by design before any propagation)',
    'OpenROADM NF models are judged on uniform contiguous grids only (input power "per 50 GHz" is undefined for '
    'mixed slot widths; the code documents the homogeneous-spectrum limitation)',
    'variable_gain NF between the anchor points is only required to be monotonic (docs give no closed form); '
    'stage NFs of a dual_stage are taken from gnpy.core.network.edfa_nf on the stage entries and Friis-combined here',
]

H_PLANCK = 6.62607015e-34
DEFAULT_BAND = (191.275e12, 196.125e12)       # docs/json.rst: default f_min / f_max of an amplifier
L_BAND = (186.55e12, 190.05e12)
NARROW_BAND = (192.25e12, 194.75e12)

# tolerance of oracle 2 (dB) as a function of the applied per-channel gain excursion D = max(G_i) - min(G_i):
#   D == 0 (tilt 0, flat ripple, or a single channel)  -> 1e-9 (pure rounding)
#   D <= 0.05  -> the code returns the un-normalised first estimate: error <= D
#   else       -> secant interpolation of a log-sum-exp: second order in D.  Adversarial search on the unchanged tree
#                 (hill climbing on 2-12 channel loads, 40 dB power spread, tilt +-4 dB) gave err/D^2 <= 0.0205;
#                 ln(10)/80 = 0.0288 is the curvature bound of the weighted mean over an interval of length D.
GAIN_TOL_FLAT = 1e-9


def gain_tol(delta):
    return GAIN_TOL_FLAT + min(delta, 0.05) + 0.03 * delta * delta


# ------------------------------------------------------------------------------------------- shipped entries

def _example_dir():
    import gnpy
    return Path(gnpy.__file__).resolve().parent / 'example-data'


def _shipped_libs():
    """[(file, [edfa entries])] for the equipment libraries shipped in the package (data only)"""
    out = []
    for name in ('eqpt_config.json', 'eqpt_config_multiband.json', 'eqpt_config_openroadm_ver4.json',
                 'eqpt_config_openroadm_ver5.json'):
        p = _example_dir() / name
        if p.exists():
            out.append((name, json.loads(p.read_text())['Edfa']))
    return out


def _shipped_cases():
    """every single-band entry of the shipped libraries as a self-contained mini library (entry + its stages)"""
    cases = []
    for fname, entries in _shipped_libs():
        by = {e['type_variety']: e for e in entries}
        for e in entries:
            if e.get('type_def') == 'multi_band' or 'default_config_from_json' in e:
                continue
            lib = [copy.deepcopy(e)]
            if e.get('type_def') == 'dual_stage':
                lib = [copy.deepcopy(by[e['preamp_variety']]), copy.deepcopy(by[e['booster_variety']])] + lib
            cases.append({'lib': lib, 'name': e['type_variety'], 'origin': fname})
    return cases


_ADV_CACHE = {}


def _advanced_config(fname):
    if fname not in _ADV_CACHE:
        _ADV_CACHE[fname] = json.loads((_example_dir() / fname).read_text())
    return _ADV_CACHE[fname]


def entry_band(entry):
    if 'f_min' in entry:
        return entry['f_min'], entry['f_max']
    if entry.get('type_def') == 'advanced_model':
        cfg = _advanced_config(entry['advanced_config_from_json'])
        return cfg['f_min'], cfg['f_max']
    return DEFAULT_BAND


# ------------------------------------------------------------------------------------------- generator

_bands = st.sampled_from([None, None, None, L_BAND, NARROW_BAND])


@st.composite
def _single_entry(draw, name, kinds=('variable_gain', 'fixed_gain', 'advanced_model', 'openroadm', 'openroadm')):
    kind = draw(st.sampled_from(kinds))
    if kind == 'variable_gain':
        b = draw(_bands)
        return draw(netgen.variable_gain_entry(name, band=list(b) if b else None))
    if kind == 'fixed_gain':
        b = draw(_bands)
        return draw(netgen.fixed_gain_entry(name, band=list(b) if b else None))
    if kind == 'advanced_model':
        return draw(netgen.advanced_entry(name))
    return draw(netgen.openroadm_entry(name))


@st.composite
def _library(draw):
    """(lib, name, origin)"""
    kind = draw(st.sampled_from(['single', 'single', 'single', 'single', 'dual', 'dual', 'shipped', 'shipped',
                                 'multiband']))
    if kind == 'single':
        return [draw(_single_entry('A'))], 'A', 'generated'
    if kind == 'dual':
        stage = ('variable_gain', 'fixed_gain', 'advanced_model')
        pre = draw(_single_entry('P', stage))
        boo = draw(_single_entry('B', stage))
        for e in (pre, boo):       # a dual stage takes the default band whatever its stages say
            e.pop('f_min', None)
            e.pop('f_max', None)
        dual = {'type_variety': 'A', 'type_def': 'dual_stage', 'gain_min': pre['gain_min'] + draw(st.integers(0, 12)),
                'preamp_variety': 'P', 'booster_variety': 'B', 'allowed_for_design': True}
        return [pre, boo, dual], 'A', 'generated'
    if kind == 'multiband':
        stage = ('variable_gain', 'fixed_gain')
        c = draw(_single_entry('C0', stage))
        l = draw(_single_entry('L0', stage))
        c.pop('f_min', None)
        c.pop('f_max', None)
        l['f_min'], l['f_max'] = L_BAND
        mb = {'type_variety': 'A', 'type_def': 'multi_band', 'amplifiers': ['C0', 'L0'], 'allowed_for_design': True}
        return [c, l, mb], 'A', 'generated'
    s = draw(st.sampled_from(_SHIPPED))
    return copy.deepcopy(s['lib']), s['name'], s['origin']


def _gain_range(lib, name):
    by = {e['type_variety']: e for e in lib}
    e = by[name]
    if e['type_def'] == 'dual_stage':
        return e['gain_min'], by[e['preamp_variety']]['gain_flatmax'] + by[e['booster_variety']]['gain_flatmax']
    return e['gain_min'], e['gain_flatmax']


def _p_max(lib, name):
    by = {e['type_variety']: e for e in lib}
    e = by[name]
    return by[e['booster_variety']]['p_max'] if e['type_def'] == 'dual_stage' else e['p_max']


@st.composite
def _operational(draw, gmin, gmax):
    gmin, gmax = min(gmin, gmax), max(gmin, gmax)   # a dual stage may declare gain_min above its total flat gain
    g = draw(st.one_of(st.floats(gmin - 6.0, gmax + 4.0), st.floats(gmin, gmax), st.floats(gmax, gmax + 4.0),
                       st.sampled_from([gmin, gmax])))
    return {'gain_target': float(g),
            'tilt_target': draw(st.one_of(st.just(0.0), st.just(0.0), st.floats(-4.0, 4.0))),
            'out_voa': draw(st.sampled_from([0.0, 0.0, 1.0, 3.5])),
            'in_voa': draw(st.sampled_from([0, 0, None, 0.5, 2.0]))}


def _inband(comb, band):
    return [c for c in comb if c['f'] - c['slot'] / 2 >= band[0] and c['f'] + c['slot'] / 2 <= band[1]]


@st.composite
def amp_case(draw):
    lib, name, origin = draw(_library())
    by = {e['type_variety']: e for e in lib}
    entry = by[name]
    if entry['type_def'] == 'multi_band':
        members = [by[n] for n in entry['amplifiers']]
    else:
        members = [entry]
    ops = {}
    for m in members:
        ops[m['type_variety']] = draw(_operational(*_gain_range(lib, m['type_variety'])))
    # spectrum: one comb per band, placed inside / across / outside it (multiband: L comb below the C comb)
    comb = []
    edge = 0
    ordered = sorted(members, key=lambda m: entry_band(m)[0])
    for m in ordered:
        lo, hi = entry_band(m) if m['type_def'] != 'dual_stage' else DEFAULT_BAND
        lo_m, hi_m = int(round(lo / 1e6)), int(round(hi / 1e6))
        start = draw(st.one_of(st.just(lo_m), st.just(lo_m), st.integers(lo_m - 300_000, lo_m + 200_000),
                               st.integers(lo_m, hi_m - 200_000), st.integers(lo_m, hi_m - 200_000)))
        start = max(start, edge)
        stop = draw(st.sampled_from([None, None, hi_m, hi_m + 300_000]))
        if len(members) > 1 and m is not ordered[-1] and stop is None:
            stop = hi_m + 300_000
        part = draw(spectra.comb(1, draw(st.sampled_from([1, 2, 5, 40, 100])), f_start=(start, start),
                                 power=(-30.0, 10.0), f_stop=stop))
        comb.extend(part)
        edge = int(max(c['f'] + c['slot'] / 2 for c in part) // 1e6) + 1
    # saturation regime of each member: shift all powers so that the in-band total sits relative to p_max - gain
    m0 = members[draw(st.integers(0, len(members) - 1))]
    inb = _inband(comb, entry_band(m0))
    regime = draw(st.sampled_from(['free', 'sat', 'sat', 'unsat', 'unsat', 'edge']))
    if inb and regime != 'free':
        op = ops[m0['type_variety']]
        tot = 10 * math.log10(sum(10 ** (c['p_dbm'] / 10) for c in inb)) - (op['in_voa'] or 0)
        knee = _p_max(lib, m0['type_variety']) - op['gain_target']
        if regime == 'sat':
            want = knee + draw(st.floats(0.01, 8.0))
        elif regime == 'unsat':
            want = knee - draw(st.floats(0.01, 30.0))
        else:
            want = knee + draw(st.floats(-0.01, 0.01))
        shift = want - tot
        for c in comb:
            c['p_dbm'] = c['p_dbm'] + shift
    noise = None
    if draw(st.integers(0, 3)) == 0:
        noise = {'ase': draw(st.floats(0.0, 0.2)), 'nli': draw(st.floats(0.0, 0.2)), 'seed': draw(st.integers(1, 2 ** 30))}
    return {'lib': lib, 'name': name, 'origin': origin, 'op': ops, 'comb': comb, 'noise': noise,
            'split_m': draw(st.integers(1, 150))}


def _vec(seed, n, lo, hi):
    out = []
    x = seed % 2147483647 or 1
    for _ in range(n):
        x = (x * 48271) % 2147483647
        out.append(lo + (hi - lo) * (x / 2147483647))
    return out


# ------------------------------------------------------------------------------------------- oracle pieces

def _db(x):
    return 10 * math.log10(x)


def _lin(x):
    return 10 ** (x / 10)


def _polyval(coef, x):
    """highest power first (numpy.polyval convention = the [a, b, c, d] of the docs)"""
    r = 0.0
    for c in coef:
        r = r * x + c
    return r


def _interp_uniform(values, fmin, fmax, f):
    """piecewise-linear interpolation of `values` given on a uniform grid fmin..fmax (docs: 'comb list across the
    frequency range'); constant outside"""
    n = len(values)
    if n == 1:
        return values[0]
    if f <= fmin:
        return values[0]
    if f >= fmax:
        return values[-1]
    step = (fmax - fmin) / (n - 1)
    k = min(int((f - fmin) / step), n - 2)
    # guard against rounding of the division at grid points
    while k > 0 and fmin + k * step > f:
        k -= 1
    while k < n - 2 and fmin + (k + 1) * step <= f:
        k += 1
    x0 = fmin + k * step
    t = (f - x0) / step
    return values[k] + (values[k + 1] - values[k]) * t


def _stage_nf(equipment, stage_name, gain):
    from gnpy.core.network import edfa_nf
    return float(edfa_nf(gain, equipment['Edfa'][stage_name]))


def _expected_nf(ctx, lib, name, equipment, g_eff, pin_dbm, chans, uniform_slot):
    """Per-channel expected NF list (dB) or None when the model is not judged for this input.
    chans: in-band channels sorted by frequency."""
    by = {e['type_variety']: e for e in lib}
    e = by[name]
    kind = e['type_def']
    n = len(chans)
    if kind == 'dual_stage':
        pre, boo = by[e['preamp_variety']], by[e['booster_variety']]
        g1 = pre['gain_flatmax']
        nf1 = _stage_nf(equipment, pre['type_variety'], g1)
        nf2 = _stage_nf(equipment, boo['type_variety'], g_eff - g1)
        # Friis: F = F1 + F2 / G1  (docs: preamp operated at its maximum gain, padding only in the 2nd stage)
        return [_db(_lin(nf1) + _lin(nf2) / _lin(g1))] * n
    gmin, gmax = e['gain_min'], e['gain_flatmax']
    pad = max(gmin - g_eff, 0.0)
    g = g_eff + pad
    if kind == 'fixed_gain':
        return [e['nf0'] + pad] * n
    if kind == 'advanced_model':
        cfg = _advanced_config(e['advanced_config_from_json'])
        x = min(g - gmax, 0.0)          # NF = f(G - G_max), flat above G_max
        base = _polyval(cfg['nf_fit_coeff'], x) + pad
        return [base + _interp_uniform(cfg['nf_ripple'], cfg['f_min'], cfg['f_max'], c['f']) for c in chans]
    if kind == 'openroadm_booster':
        return [-math.inf] * n
    if kind in ('openroadm', 'openroadm_preamp'):
        if uniform_slot is None:
            ctx.label('not-judged:openroadm-nf-on-nonuniform-grid')
            return None
        pin50 = pin_dbm - _db(n) + _db(50e9 / uniform_slot)
        if kind == 'openroadm':
            osnr = _polyval(e['nf_coef'], pin50)
        else:
            osnr = min((4 * pin50 + 275) / 7, 33)
        return [pin50 - osnr + 58 + pad] * n
    if kind == 'variable_gain':
        return None     # handled by _check_variable_gain (no closed form in the docs)
    raise AssertionError(kind)


def _check_variable_gain(ctx, e, equipment, g_eff, nf_obs, tag):
    """anchor points, monotonicity, dB-for-dB padding, and NF depends on the applied gain only"""
    name = e['type_variety']
    gmin, gmax = e['gain_min'], e['gain_flatmax']
    nf_lo = _stage_nf(equipment, name, gmax)      # lowest NF, at maximum flat gain
    nf_hi = _stage_nf(equipment, name, gmin)      # highest NF, at minimum gain
    # the loader accepts |nf_min - model| <= 0.01 dB; 0.001 for the 4-decimal rounding of generated entries
    if abs(nf_lo - e['nf_min']) > 0.011:
        ctx.violation('nf-model:variable_gain:anchor-nf_min', f'{tag}: NF(gain_flatmax={gmax})={nf_lo!r} nf_min={e["nf_min"]}')
    if abs(nf_hi - e['nf_max']) > 0.011:
        ctx.violation('nf-model:variable_gain:anchor-nf_max', f'{tag}: NF(gain_min={gmin})={nf_hi!r} nf_max={e["nf_max"]}')
    # 60-point sweep: non-increasing with gain
    pts = [gmin - 6 + (gmax + 4 - (gmin - 6)) * k / 59 for k in range(60)]
    prev = None
    for g in pts:
        v = _stage_nf(equipment, name, g)
        if prev is not None and v > prev[1] + 1e-9:
            ctx.violation('nf-model:variable_gain:not-monotonic', f'{tag}: NF({prev[0]:.3f})={prev[1]!r} < NF({g:.3f})={v!r}')
            break
        if g < gmin and abs(v - (nf_hi + gmin - g)) > 1e-9:
            ctx.violation('nf-model:variable_gain:padding', f'{tag}: NF({g:.3f})={v!r} expected {nf_hi + gmin - g!r}')
            break
        prev = (g, v)
    # the amplifier under test, at the gain it actually applied
    want = None
    if g_eff < gmin:
        want = nf_hi + (gmin - g_eff)
        if any(abs(x - want) > 1e-9 for x in nf_obs):
            ctx.violation('nf-model:variable_gain:padding', f'{tag}: applied gain {g_eff!r} < gain_min {gmin}: NF={nf_obs[0]!r} '
                                                            f'expected NF(gain_min)+{gmin - g_eff!r}={want!r}')
    else:
        hi_bound = nf_hi if g_eff <= gmax else nf_lo
        lo_bound = nf_lo if g_eff <= gmax else -math.inf
        if any(x > hi_bound + 1e-9 or x < lo_bound - 1e-9 for x in nf_obs):
            ctx.violation('nf-model:variable_gain:outside-anchors', f'{tag}: applied gain {g_eff!r}: NF={nf_obs[0]!r} not in '
                                                                    f'[{lo_bound!r}, {hi_bound!r}]')
    ref = _stage_nf(equipment, name, g_eff)
    if any(abs(x - ref) > 1e-9 for x in nf_obs):
        ctx.violation('nf-model:variable_gain:not-a-function-of-applied-gain',
                      f'{tag}: NF={nf_obs[0]!r} but an unsaturated amplifier set to the same gain {g_eff!r} has {ref!r}')


def _snapshot(si):
    import numpy as np
    return {'f': [float(x) for x in si.frequency], 'pch': np.array(si.pch, dtype=float),
            'signal': np.array(si.signal, dtype=float), 'ase': np.array(si.ase, dtype=float),
            'nli': np.array(si.nli, dtype=float)}


def _build_input(case):
    import numpy as np
    si = spectra.comb_to_si(case['comb'])
    noise = case.get('noise')
    if noise:
        n = si.number_of_channels
        a = _vec(noise['seed'], n, 0.0, noise['ase'])
        b = _vec(noise['seed'] + 17, n, 0.0, noise['nli'])
        si.add_ase(np.array(a) * si.pch)
        si.add_nli(np.array(b) * si.pch)
    return si


def _check_one_amp(ctx, case, equipment, amp, member, op, snap_in, out_by_f, tag):
    """all oracles for one Edfa object that has just processed the spectrum.
    snap_in: input snapshot (all channels); out_by_f: {f: (signal, ase, nli, pch)} of the output."""
    lib = case['lib']
    by = {e['type_variety']: e for e in lib}
    name = member['type_variety']
    band = entry_band(member) if member['type_def'] != 'dual_stage' else DEFAULT_BAND
    meta = {c['f']: c for c in case['comb']}
    idx = [i for i, f in enumerate(snap_in['f'])
           if f - meta[f]['slot'] / 2 >= band[0] and f + meta[f]['slot'] / 2 <= band[1]]
    chans = [meta[snap_in['f'][i]] for i in idx]
    n = len(idx)
    a_in = _lin(-(op['in_voa'] or 0))
    a_out = _lin(-op['out_voa'])
    pin = [float(snap_in['pch'][i]) * a_in for i in idx]
    pin_tot = math.fsum(pin)
    pin_dbm = _db(pin_tot / 1e-3)
    p_max = _p_max(lib, name)
    # 1. effective gain
    g_exp = min(op['gain_target'], p_max - pin_dbm)
    saturated = p_max - pin_dbm < op['gain_target']
    if abs(float(amp.effective_gain) - g_exp) > 1e-9:
        ctx.violation('effective-gain-not-min(set,p_max-pin)',
                      f'{tag}: effective_gain={amp.effective_gain!r} expected min({op["gain_target"]!r}, '
                      f'{p_max}-{pin_dbm!r})={g_exp!r} ({n} ch)')
    # 2. total gain before the output VOA
    gains = []
    for k, i in enumerate(idx):
        f = snap_in['f'][i]
        s_out = out_by_f[f][0]
        s_in = float(snap_in['signal'][i]) * a_in
        gains.append(s_out / s_in / a_out)
    gains_db = [_db(g) for g in gains]
    delta = max(gains_db) - min(gains_db)
    if delta < 1e-10:
        delta = 0.0
    amplified = math.fsum(p * g for p, g in zip(pin, gains))
    g_tot = _db(amplified / pin_tot)
    tol = gain_tol(delta)
    if abs(g_tot - g_exp) > tol:
        ctx.violation('total-gain-differs-from-effective-gain' + (':flat-profile' if delta == 0.0 else ':tilted-profile'),
                      f'{tag}: total gain {g_tot!r} dB, effective gain {g_exp!r} (tol {tol:.3g}, gain excursion {delta:.4f} dB, '
                      f'tilt {op["tilt_target"]}, {n} ch)')
    if _db(amplified / 1e-3) > p_max + tol:
        ctx.violation('output-above-p_max', f'{tag}: amplified input {_db(amplified / 1e-3)!r} dBm > p_max {p_max} (tol {tol:.3g})')
    # 3. ASE referred to the input
    nf_obs = [float(x) for x in amp.nf]
    if len(nf_obs) != n:
        ctx.violation('reported-nf-length', f'{tag}: len(nf)={len(nf_obs)} for {n} in-band channels')
        return None
    for k, i in enumerate(idx):
        f = snap_in['f'][i]
        c = chans[k]
        ase_in = float(snap_in['ase'][i]) * a_in
        added = out_by_f[f][1] / (gains[k] * a_out) - ase_in
        want = H_PLANCK * f * c['baud'] * (_lin(nf_obs[k]) if nf_obs[k] != -math.inf else 0.0)
        if abs(added - want) > 1e-9 * want + 1e-12 * ase_in + 1e-30:
            ctx.violation('ase-not-h.f.baud.NF', f'{tag}: ch {f}: added ASE at input {added!r} W, h.f.baud.NF={want!r} '
                                                 f'(NF {nf_obs[k]!r} dB, baud {c["baud"]}, slot {c["slot"]})')
            break
    # 4. NF model
    slots = {c['slot'] for c in chans}
    uniform = None
    if len(slots) == 1:
        s = next(iter(slots))
        fs = sorted(c['f'] for c in chans)
        if all(b - a == s for a, b in zip(fs[:-1], fs[1:])):
            uniform = s
    kind = member['type_def']
    if kind == 'variable_gain':
        _check_variable_gain(ctx, member, equipment, g_exp, nf_obs, tag)
    else:
        want = _expected_nf(ctx, lib, name, equipment, g_exp, pin_dbm, chans, uniform)
        if want is not None:
            for k, (got, w) in enumerate(zip(nf_obs, want)):
                bad = (got != w) if w == -math.inf else abs(got - w) > 1e-9
                if bad:
                    ctx.violation(f'nf-model:{kind}', f'{tag}: ch {chans[k]["f"]}: reported NF {got!r}, model {w!r} '
                                                      f'(applied gain {g_exp!r}, gain_min {member["gain_min"]}, '
                                                      f'pin {pin_dbm!r} dBm, {n} ch)')
                    break
    # labels
    ctx.label('model:' + kind)
    if kind == 'dual_stage':
        ctx.label('dual:' + by[member['preamp_variety']]['type_def'] + '+' + by[member['booster_variety']]['type_def'])
    gmin, gmax = _gain_range(lib, name)
    ctx.label('saturated' if saturated else 'unsaturated')
    ctx.label('tilt:' + ('0' if op['tilt_target'] == 0 else 'nonzero'))
    region = 'below-gain_min' if g_exp < gmin else 'above-gain_flatmax' if g_exp > gmax else 'in-range'
    ctx.label('applied-gain:' + region)
    ctx.label('inband-ch:' + ('1' if n == 1 else '2-10' if n <= 10 else '11+'))
    if uniform is not None and kind.startswith('openroadm'):
        ctx.label('openroadm-nf-judged')
    mixed = len({c['baud'] for c in chans}) > 1
    return {'n': n, 'pin_tot_w': math.fsum(float(snap_in['pch'][i]) for i in idx), 'g_exp': g_exp, 'band': band,
            'nontrivial': saturated or op['tilt_target'] != 0 or region != 'in-range' or mixed}


def _new_edfa(equipment, name, op, uid='amp'):
    from gnpy.core.elements import Edfa
    return Edfa(uid=uid, params=equipment['Edfa'][name].__dict__,
                operational={'gain_target': op['gain_target'], 'tilt_target': op['tilt_target'],
                             'out_voa': op['out_voa'], 'in_voa': op['in_voa']})


def _new_multiband(equipment, lib, name, ops):
    from gnpy.tools.json_io import network_from_json
    by = {e['type_variety']: e for e in lib}
    topo = {'elements': [{'uid': 'amp', 'type': 'Multiband_amplifier', 'type_variety': name,
                          'amplifiers': [{'type_variety': m, 'operational': dict(ops[m])} for m in by[name]['amplifiers']]}],
            'connections': []}
    net = network_from_json(topo, equipment)
    return next(iter(net.nodes()))


def _split_spectrum(band, total_w, m):
    """m equal channels on a 25 GHz grid inside the band carrying total_w in total"""
    import numpy as np
    from gnpy.core.info import create_arbitrary_spectral_information
    slot = 25e9
    m = max(1, min(m, int((band[1] - band[0]) // slot)))
    f = [band[0] + slot / 2 + slot * k for k in range(m)]
    p = total_w / m
    return create_arbitrary_spectral_information(frequency=np.array(f), pch=p, baud_rate=20e9, slot_width=slot,
                                                 tx_osnr=40.0, tx_power=p, roll_off=0.1, label='s'), m


def run_amp(case, ctx):
    lib = case['lib']
    by = {e['type_variety']: e for e in lib}
    entry = by[case['name']]
    equipment = netgen.load_equipment({'Edfa': lib})
    multiband = entry['type_def'] == 'multi_band'
    members = [by[n] for n in entry['amplifiers']] if multiband else [entry]
    si = _build_input(case)
    snap_in = _snapshot(si)
    meta = {c['f']: c for c in case['comb']}

    def inband(m):
        b = entry_band(m) if m['type_def'] != 'dual_stage' else DEFAULT_BAND
        return [f for f in snap_in['f'] if f - meta[f]['slot'] / 2 >= b[0] and f + meta[f]['slot'] / 2 <= b[1]]
    expected_out = sorted(f for m in members for f in inband(m))
    ctx.label('origin:' + ('shipped' if case['origin'] != 'generated' else 'generated'))
    n_all = len(snap_in['f'])
    ctx.label('placement:' + ('all-in-band' if len(expected_out) == n_all else
                              'none-in-band' if not expected_out else 'partly-out-of-band'))
    if case.get('noise'):
        ctx.label('input-carries-ase+nli')

    if multiband:
        amp = _new_multiband(equipment, lib, case['name'], case['op'])
    else:
        amp = _new_edfa(equipment, case['name'], case['op'][case['name']])
    # 5. channel set / documented rejection
    if not expected_out:
        try:
            amp(si)
        except ValueError:
            ctx.label('rejected:no-channel-in-band')
            return
        ctx.violation('no-channel-in-band-not-rejected', 'amplifier accepted a spectrum without any in-band channel')
        return
    out = amp(si)
    got = [float(f) for f in out.frequency]
    if got != expected_out:
        ctx.violation('output-channel-set', f'in-band channels {expected_out[:4]}..({len(expected_out)}) but output has '
                                            f'{got[:4]}..({len(got)})')
        return
    out_by_f = {float(f): (float(out.signal[i]), float(out.ase[i]), float(out.nli[i]), float(out.pch[i]))
                for i, f in enumerate(out.frequency)}
    nontrivial = False
    for m in members:
        mname = m['type_variety']
        if not inband(m):
            ctx.label('multiband:empty-band')
            continue
        if multiband:
            from gnpy.core.parameters import FrequencyBand, find_band_name
            b = entry_band(m)
            sub = amp.amplifiers[find_band_name(FrequencyBand(f_min=b[0], f_max=b[1]))]
        else:
            sub = amp
        res = _check_one_amp(ctx, case, equipment, sub, m, case['op'][mname], snap_in, out_by_f,
                             f'{mname}({m["type_def"]})')
        if res is None:
            continue
        nontrivial |= res['nontrivial']
        # metamorphic: same total input power over another number of channels => same effective gain
        si2, m_used = _split_spectrum(res['band'], res['pin_tot_w'], case['split_m'])
        amp2 = _new_edfa(equipment, mname, case['op'][mname], uid='amp2')
        amp2(si2)
        if abs(float(amp2.effective_gain) - float(sub.effective_gain)) > 1e-9:
            ctx.violation('effective-gain-depends-on-channel-count',
                          f'{mname}: {res["n"]} channels -> {sub.effective_gain!r}, same total power on {m_used} channels '
                          f'-> {amp2.effective_gain!r}')
    # ---- history: the same amplifier object amplifies a second spectrum; the result must be what a fresh object of the same
    # model and settings gives (nothing computed for the first spectrum may leak into the second)
    import copy
    import numpy as np
    bands = [entry_band(m) if m['type_def'] != 'dual_stage' else DEFAULT_BAND for m in members]
    second = None
    if multiband and len([m for m in members if inband(m)]) >= 2:
        # only the channels of one band this time
        b = bands[case['split_m'] % len(bands)]
        second = [c for c in case['comb'] if c['f'] - c['slot'] / 2 >= b[0] and c['f'] + c['slot'] / 2 <= b[1]]
        ctx.label('history:second-spectrum-in-one-band-only')
    if not second:
        # same number of channels at other frequencies (shifted by a quarter of the narrowest slot, kept inside the band)
        kept = [c for c in case['comb'] if c['f'] in set(expected_out)]
        shift = min(c['slot'] for c in kept) / 4
        for sgn in (1, -1):
            cand = [dict(c, f=c['f'] + sgn * shift) for c in kept]
            if all(any(lo <= c['f'] - c['slot'] / 2 and c['f'] + c['slot'] / 2 <= hi for lo, hi in bands) for c in cand):
                second = cand
                ctx.label('history:second-spectrum-shifted')
                break
    subs = list(amp.amplifiers.values()) if multiband else [amp]
    if second and any(abs(float(a.effective_gain) - float(a.operational.gain_target)) > 1e-9 for a in subs):
        # a saturated amplifier object keeps the gain it was clamped to (known behaviour: request computations work on copies
        # of the elements, C16 owns what leaks between propagations); the clause is judged on unsaturated first calls
        ctx.label('history:not-judged-first-call-saturated')
        second = None
    if second:
        case2 = dict(case, comb=second)
        fresh = _new_multiband(equipment, lib, case['name'], case['op']) if multiband else \
            _new_edfa(equipment, case['name'], case['op'][case['name']])
        out_used = amp(_build_input(case2))
        out_fresh = fresh(_build_input(case2))
        for name_ in ('frequency', 'signal', 'ase', 'nli'):
            x, y = np.asarray(getattr(out_used, name_)), np.asarray(getattr(out_fresh, name_))
            if x.shape != y.shape or not np.allclose(x, y, rtol=1e-12, atol=0):
                ctx.violation('amplifier-result-depends-on-an-earlier-call',
                              f'{case["name"]}: {name_} of the second spectrum: used object {x[:3]} ({x.shape}), fresh object '
                              f'{y[:3]} ({y.shape})')
                break
    if multiband:
        ctx.label('model:multi_band')
    ctx.nontrivial(nontrivial)


try:
    _SHIPPED = _shipped_cases()
except Exception:  # pragma: no cover  (package data missing: generated libraries only)
    _SHIPPED = []
if not _SHIPPED:
    _SHIPPED = [{'lib': [{'type_variety': 'std_fixed_gain', 'type_def': 'fixed_gain', 'gain_flatmax': 21, 'gain_min': 20,
                          'p_max': 21, 'nf0': 5.5, 'allowed_for_design': False}], 'name': 'std_fixed_gain',
                 'origin': 'builtin'}]

CHECKS = [
    Check('amp', amp_case(), run_amp, quick=2400, thorough=80000,
          doc='one amplifier call: clamp rule, total gain, ASE formula, NF model per type_def, channel set'),
]

_MODELS = ('variable_gain', 'fixed_gain', 'advanced_model', 'openroadm', 'openroadm_preamp', 'openroadm_booster',
           'dual_stage', 'multi_band')
FLOORS = {f'amp:model:{m}': (0.01 if m.startswith('openroadm_') else 0.03, 'amp') for m in _MODELS}
FLOORS['amp:saturated'] = (0.15, 'amp')
FLOORS['amp:tilt:nonzero'] = (0.15, 'amp')
