"""C05 — fibre spans apply exactly their loss budget and accumulate CD, PMD, PDL, latency; Raman consistency
(DESIGN §3 C05).

Sub-checks
  spans   Raman off. A generated sequence of 1-6 fibres, optionally interleaved with ROADM / amplifier PMD-PDL
          contributions, is applied element by element to a generated comb, in the generated order and in a generated
          permutation of it.  Oracles (own arithmetic on the case JSON):
            P_out/P_in per channel and fibre = 10^(-(att_in+con_in+loss(f)*L+sum(lumped)+con_out)/10)   rtol 1e-10
               (loss(f): scalar, or linear interpolation in the per-frequency table)
            latency = sum L * 1.468 / c                                                                  rtol 1e-12
            PMD = sqrt(sum pmd_coef^2 L + sum roadm^2 + sum amp^2), PDL = sqrt(sum roadm^2 + sum amp^2)    rtol 1e-12
            CD: scalar dispersion without slope => every channel gets D*L per span (what tests/test_propagation
               asserts); a channel sitting on the fibre's reference frequency gets D(f_ref)*L for slope / table
               fibres; all fibres: total CD = sum of what each fibre contributes when propagated alone (additivity)
                                                                                                         rtol 1e-12
            permutation: identical CD, PMD, PDL, latency, per-fibre loss and (fibre-only chains) total loss
  raman   Raman on, plain Fiber, no pumps: (a) low-power limit (-90 dBm): perturbative => exp(-alpha L) x lumped,
          numerical => exact discrete Euler product on the solver grid x lumped (rtol 1e-6); (b) at 0..+3 dBm the two
          methods agree once the exact linear Euler factor is taken out, within the discretisation / truncation bound
          derived below; (c) inserting one more lumped loss multiplies the low-power output by exactly that loss.
  pumps   Raman on, RamanFiber with counter- (and sometimes co-) propagating pumps above every channel frequency vs the
          same fibre without pumps: no channel leaves with less power (factor 1 - 1e-6).
"""
import math
from hypothesis import strategies as st

from pbt.runner import Check
from pbt.gens import spectra, fibres

PROPERTY = 'C05'
RULE = ('spans: Hypothesis-generated comb (1-40 channels, mixed widths/powers, shuffled) x 1-6 fibres from '
        'pbt.gens.fibres.fibre (length 1 m-400 km log-uniform or typical, scalar or per-frequency loss, 0-3 lumped '
        'losses at distinct interior positions in list order as generated, connectors, padding, dispersion scalar / '
        '+slope / per-frequency, pmd_coef, reference wavelength/frequency incl. on a channel) with 0-3 ROADM (global '
        'pmd/pdl or impairment profile of the own / another path type with 1-2 frequency bands; express, add or drop '
        'path) / Edfa (pmd/pdl) / Multiband_amplifier (2-3 bands listed in any order, own pmd/pdl per band) contributions interleaved, some fibres given in metres, x a generated permutation; non-trivial = >=2 fibres with distinct parameters and a non-identity permutation. '
        'raman: fibre 1-120 km x comb of 1-24 channels x method/order/solver step/result resolution x 0-2 lumped '
        'losses x one inserted lumped loss; non-trivial = >=1 lumped loss (always: the inserted one). '
        'pumps: RamanFiber 5-80 km, 1-8 channels below 197.5 THz, 1-3 pumps at 200-207 THz (counter, sometimes one co), '
        'total pump power <= 0.6 W x A_eff/83 um^2; '
        'non-trivial = >=1 pump (always). distinct = distinct sha1 of the case JSON.')
ASSUMPTIONS = ['elements are applied directly (Fiber(si), Roadm(si, degree, from_degree), Edfa(si)) as propagate() does',
               'lumped-loss positions are distinct (the YANG model keys the list by position)',
               'group index 1.468 for latency (FiberParams)',
               'CD per span is judged in value only where the repository tests / the definition of the reference '
               'frequency fix it (scalar dispersion; channel on f_ref); elsewhere only additivity and order independence',
               'Raman (b): bound = (3 + n_lumped) g dz/(1-alpha dz) + (g L_eff)^(order+1) + 1e-9 on |ln(P_num/P_pert) - '
               'linear Euler term|, g = max_i sum_j |C_R,ij| P_j at the fibre input. Terms: left Riemann sum of a decaying '
               'Raman rate (<= g dz/2), the 1/(1-alpha dz) factor of the Euler step (<= g dz/(1-alpha dz)), Euler power '
               'deficit (<= g dz/2), one step of pre-loss Raman rate per lumped loss (<= g dz each), truncation of the '
               'perturbative series; 1.5x margin (probe: observed 1.1-1.2 g dz for alpha dz << 1, 3.8 g dz at alpha dz = '
               '0.8, worst of 7500 generated cases 0.61 of the previous, tighter bound)',
               'Raman (a)/(c) run at -90 dBm per channel so that residual SRS is < 1e-9',
               'pumps: baseline uses the numerical (Euler) method whenever a counter pump is present because the '
               'iterative co/counter algorithm is an Euler scheme on the same grid']

C = 299792458.0
N1 = 1.468


# ------------------------------------------------------------------------------------------------ generators

def _pmd():
    return st.one_of(st.just(0.0), st.sampled_from([1e-12, 3e-12, 0.5e-12]), st.floats(0.0, 5e-12))


def _pdl():
    return st.one_of(st.just(0.0), st.sampled_from([0.5, 0.3, 1.5]), st.floats(0.0, 2.0))


@st.composite
def _roadm(draw, chans):
    """ROADM contribution: global pmd/pdl, or an impairment profile (1-2 frequency bands) of some path type; the
    profile applies iff its type equals the type of the internal path the signal takes (express / add / drop)."""
    freqs = sorted(c['f'] for c in chans)
    f_lo, f_hi = fibres.band_of(chans)
    el = {'kind': 'roadm', 'pmd': draw(_pmd()), 'pdl': draw(_pdl()), 'target': draw(st.sampled_from([-20.0, -25.0, 0.0])),
          'path_type': draw(st.sampled_from(['express', 'express', 'add', 'drop'])), 'profile': None}
    kind = draw(st.sampled_from(['global', 'global', 'same', 'same', 'same2', 'other']))
    if kind == 'global':
        return el
    lo, hi = f_lo - 1e12, f_hi + 1e12

    def band(a, b):
        return {'lo': a, 'hi': b, 'pmd': draw(_pmd()), 'pdl': draw(_pdl()),
                'maxloss': draw(st.sampled_from([0.0, 6.0, 10.5]))}
    if kind == 'same2' and len(freqs) >= 2:
        i = draw(st.integers(0, len(freqs) - 2))
        split = (freqs[i] + freqs[i + 1]) / 2       # strictly between two channel frequencies: no tie
        bands = [band(lo, split), band(split, hi)]
        if draw(st.booleans()):
            bands.reverse()
    else:
        bands = [band(lo, hi)]
    ptype = el['path_type'] if kind != 'other' else {'express': 'add', 'add': 'drop', 'drop': 'express'}[el['path_type']]
    el['profile'] = {'type': ptype, 'bands': bands}
    return el


@st.composite
def _edfa(draw):
    return {'kind': 'edfa', 'pmd': draw(_pmd()), 'pdl': draw(_pdl()), 'gain': draw(st.sampled_from([10.0, 17.0, 0.0])),
            'out_voa': draw(st.sampled_from([0.0, 0.0, 1.0]))}


@st.composite
def _mbamp(draw, chans):
    """multiband amplifier: 2-3 bands that together cover every channel slot, split between two channels, the per-band
    amplifiers listed in a generated order, each with its own pmd/pdl"""
    cs = sorted(chans, key=lambda c: c['f'])
    nb = draw(st.integers(2, 3)) if len(cs) >= 3 else 2
    cuts = sorted(draw(st.lists(st.integers(0, len(cs) - 2), min_size=nb - 1, max_size=nb - 1, unique=True))) if len(cs) >= 2 else []
    edges = [cs[0]['f'] - cs[0]['slot'] / 2 - 1e12]
    for i in cuts:
        edges.append(((cs[i]['f'] + cs[i]['slot'] / 2) + (cs[i + 1]['f'] - cs[i + 1]['slot'] / 2)) / 2)
    edges.append(cs[-1]['f'] + cs[-1]['slot'] / 2 + 1e12)
    bands = [{'lo': a, 'hi': b, 'pmd': draw(_pmd()), 'pdl': draw(_pdl()), 'gain': draw(st.sampled_from([10.0, 17.0, 0.0]))}
             for a, b in zip(edges[:-1], edges[1:])]
    return {'kind': 'mbamp', 'bands': list(draw(st.permutations(bands)))}


@st.composite
def span_cases(draw):
    chans = draw(st.one_of(spectra.comb(1, 6), spectra.comb(2, 12), spectra.comb(2, 40)))
    f_lo, f_hi = fibres.band_of(chans)
    cf = [c['f'] for c in chans]
    nf = draw(st.sampled_from([1, 2, 2, 3, 3, 4, 5, 6]))
    els = []
    for _ in range(nf):
        fp = draw(fibres.fibre(f_lo, f_hi, length_range=(0.001, 400.0), channel_freqs=cf))
        if draw(st.integers(0, 4)) == 0 and 'lumped_losses' not in fp:
            # same fibre expressed in metres (lumped-loss positions are always km, so only without them)
            fp['length'], fp['length_units'] = fibres._r(fp['length'] * 1e3, 7), 'm'
        els.append({'kind': 'fiber', 'params': fp})
    if draw(st.booleans()):
        for _ in range(draw(st.integers(1, 3))):
            other = draw(st.one_of(_roadm(chans), _edfa(), _mbamp(chans)))
            els.insert(draw(st.integers(0, len(els))), other)
    perm = draw(st.permutations(list(range(len(els)))))
    return {'comb': chans, 'elements': els, 'perm': list(perm)}


@st.composite
def raman_cases(draw):
    chans = draw(spectra.comb(1, 24, f_start=(186_000_000, 194_000_000), power=(0.0, 3.0)))
    f_lo, f_hi = fibres.band_of(chans)
    length = draw(st.one_of(st.sampled_from([80.0, 40.0, 100.0]), st.floats(1.0, 120.0).map(lambda v: round(v, 3)),
                           st.floats(0.05, 8.0).map(lambda v: round(v, 3))))
    fp = draw(fibres.fibre(f_lo, f_hi, length_km=length, channel_freqs=[c['f'] for c in chans]))
    fp['lumped_losses'] = fp.get('lumped_losses', [])[:2]
    # solver step 50 m .. 10 km, at most ~600 grid points
    lo = max(50.0, length * 1e3 / 600.0)
    step = draw(st.one_of(st.sampled_from([100.0, 1000.0, 10e3, 500.0, 2000.0]).filter(lambda s: s >= lo),
                          st.floats(lo, 10e3).map(lambda v: float(round(v)))))
    used = {round(ll['position'] * 1e6) for ll in fp['lumped_losses']}
    on_grid = draw(st.booleans()) and step < length * 1e3
    if on_grid:
        nsteps = int(length * 1e3 / step)
        ks = [k for k in range(1, nsteps + 1) if 0 < k * step < length * 1e3 and round(k * step * 1e3) not in used]
        pos = draw(st.sampled_from(ks)) * step / 1e3 if ks else None
    else:
        pos = None
    if pos is None:
        on_grid = False
        ks = [k for k in range(1, 1000) if round(length * k / 1000.0 * 1e6) not in used]
        pos = length * draw(st.sampled_from(ks)) / 1000.0
    extra = {'position': pos, 'loss': draw(st.one_of(st.sampled_from([0.5, 1.0, 3.0]), st.floats(0.01, 6.0).map(lambda v: round(v, 4))))}
    return {'comb': chans, 'fiber': fp, 'order': draw(st.integers(1, 4)), 'step': step,
            'res': draw(st.sampled_from([10e3, step, 2 * step, 5000.0])), 'extra': extra, 'extra_on_grid': on_grid,
            'first': draw(st.sampled_from(['perturbative', 'numerical']))}


@st.composite
def pump_cases(draw):
    chans = draw(spectra.comb(1, 8, f_start=(186_000_000, 196_000_000), power=(-20.0, 3.0), f_stop=197_500_000))
    f_lo, f_hi = fibres.band_of(chans)
    length = draw(st.one_of(st.sampled_from([80.0, 40.0]), st.floats(5.0, 80.0).map(lambda v: round(v, 3))))
    fp = draw(fibres.fibre(f_lo, f_hi, length_km=length, per_frequency_loss=False))
    fp['lumped_losses'] = fp.get('lumped_losses', [])[:1]
    # Pump powers by construction inside the regime the Euler-type iterative solver is meant for: the total pump power
    # is at most 0.6 W scaled by A_eff/83 um^2 (small-signal on-off gain <~ 20 dB, DESIGN: 7-13 dB for 0.45 W).
    # Beyond ~45 dB on-off gain the iteration diverges to NaN within 3 sweeps at 500 m-1 km steps (see report).
    aeff = fp.get('effective_area') or (2 * math.pi * 2.6e-20 / (fp.get('ref_wavelength', 1550e-9) * fp['gamma'])
                                        if 'gamma' in fp else 83e-12)
    if 'ref_frequency' in fp and 'effective_area' not in fp and 'gamma' in fp:
        aeff = 2 * math.pi * 2.6e-20 / (C / fp['ref_frequency'] * fp['gamma'])
    budget = 0.6 * aeff / 83e-12 * draw(st.sampled_from([1.0, 0.75, 0.5, 0.2, 0.05]))
    npumps = draw(st.integers(1, 3))
    weights = [draw(st.integers(1, 10)) for _ in range(npumps)]
    pumps = []
    for i in range(npumps):
        pumps.append({'power': fibres._r(budget * weights[i] / sum(weights), 4),
                      'frequency': draw(st.floats(200e12, 207e12).map(lambda v: float(round(v / 1e9) * 1e9))),
                      'propagation_direction': 'counterprop'})
    if npumps >= 2 and draw(st.integers(0, 3)) == 0:
        pumps[-1]['propagation_direction'] = 'coprop'
    lo = max(200.0, length * 1e3 / 300.0)
    step = draw(st.one_of(st.sampled_from([1000.0, 2000.0, 500.0, 10e3]).filter(lambda s: s >= lo),
                          st.floats(lo, 10e3).map(lambda v: float(round(v)))))
    return {'comb': chans, 'fiber': fp, 'pumps': pumps, 'method': draw(st.sampled_from(['perturbative', 'numerical'])),
            'order': draw(st.integers(1, 4)), 'step': step, 'res': draw(st.sampled_from([10e3, step, 5000.0])),
            'temperature': draw(st.sampled_from([283.0, 298.0]))}


# ------------------------------------------------------------------------------------------------ oracles

def loss_db_per_km(loss_coef, f):
    """scalar loss or linear interpolation in the per-frequency table (documented: 'loss_coef_per_frequency')"""
    if not isinstance(loss_coef, dict):
        return float(loss_coef)
    t = fibres.sorted_table(loss_coef)
    fr, v = t['frequency'], t['value']
    for i in range(len(fr) - 1):
        if fr[i] <= f <= fr[i + 1]:
            return v[i] + (v[i + 1] - v[i]) * (f - fr[i]) / (fr[i + 1] - fr[i])
    raise AssertionError('generator: loss table does not span the spectrum')


def table_lookup(table, f):
    t = fibres.sorted_table(table)
    fr, v = t['frequency'], t['value']
    for i in range(len(fr) - 1):
        if fr[i] <= f <= fr[i + 1]:
            return v[i] + (v[i + 1] - v[i]) * (f - fr[i]) / (fr[i + 1] - fr[i])
    return None


def length_km(fp):
    return fp['length'] * {'km': 1.0, 'm': 1e-3}[fp['length_units']]


def budget_db(fp, f):
    return (fp['att_in'] + fp['con_in'] + loss_db_per_km(fp['loss_coef'], f) * length_km(fp)
            + sum(ll['loss'] for ll in fp.get('lumped_losses', [])) + fp['con_out'])


def _close(a, b, rtol, atol=0.0):
    return abs(a - b) <= rtol * max(abs(a), abs(b)) + atol


def _ref_frequency(fp):
    if 'ref_wavelength' in fp:
        return C / fp['ref_wavelength']
    return fp.get('ref_frequency', C / 1550e-9)


# ------------------------------------------------------------------------------------------------ spans (Raman off)

_EDFA_LIB = {'Edfa': [{'type_variety': 'amp', 'type_def': 'fixed_gain', 'gain_flatmax': 40, 'gain_min': 0, 'p_max': 60,
                       'nf0': 5.5, 'pmd': 0.0, 'pdl': 0.0, 'f_min': 150e12, 'f_max': 250e12,
                       'allowed_for_design': False}]}


def _build(el, i):
    """fresh gnpy element + callable applying it to a SpectralInformation"""
    import copy
    from gnpy.core.elements import Roadm, Edfa
    if el['kind'] == 'fiber':
        fib = fibres.make_fiber(el['params'], uid=f'fiber{i}')
        return fib, fib
    if el['kind'] == 'roadm':
        params = {'target_pch_out_db': el['target'], 'add_drop_osnr': 38, 'pmd': el['pmd'], 'pdl': el['pdl'],
                  'restrictions': {'preamp_variety_list': [], 'booster_variety_list': []}, 'roadm-path-impairments': []}
        if el['profile']:
            key = 'roadm-' + el['profile']['type'] + '-path'
            params['roadm-path-impairments'] = [{'roadm-path-impairments-id': 7, key: [
                {'frequency-range': {'lower-frequency': b['lo'], 'upper-frequency': b['hi']}, 'roadm-pmd': b['pmd'],
                 'roadm-pdl': b['pdl'], 'roadm-maxloss': b['maxloss']} for b in el['profile']['bands']]}]
        r = Roadm(uid=f'roadm{i}', params=copy.deepcopy(params))
        r.ref_pch_in_dbm['in'] = 0.0
        r.set_roadm_paths(from_degree='in', to_degree='out', path_type=el['path_type'])
        return r, (lambda si: r(si, degree='out', from_degree='in'))
    from gnpy.tools.json_io import _equipment_from_json
    from gnpy.tools.default_edfa_config import DEFAULT_EXTRA_CONFIG
    if el['kind'] == 'mbamp':
        from gnpy.core.elements import Multiband_amplifier
        mb = Multiband_amplifier(uid=f'mbamp{i}', params={'type_variety': 'mb', 'type_def': 'multi_band', 'bands': [],
                                                           'amplifiers': [], 'allowed_for_design': False}, amplifiers=[])
        for k, b in enumerate(el['bands']):
            lib = copy.deepcopy(_EDFA_LIB)
            lib['Edfa'][0].update(pmd=b['pmd'], pdl=b['pdl'], f_min=b['lo'], f_max=b['hi'])
            eq = _equipment_from_json(lib, DEFAULT_EXTRA_CONFIG)
            # one amplifier per band, attached the way auto-design does it (node.amplifiers[band_name] = Edfa(...))
            mb.amplifiers[f'band{k}'] = Edfa(uid=f'mbamp{i}', params=dict(eq['Edfa']['amp'].__dict__),
                                             operational={'gain_target': b['gain'], 'tilt_target': 0, 'out_voa': 0.0})
        return mb, mb
    lib = copy.deepcopy(_EDFA_LIB)
    lib['Edfa'][0]['pmd'], lib['Edfa'][0]['pdl'] = el['pmd'], el['pdl']
    eq = _equipment_from_json(lib, DEFAULT_EXTRA_CONFIG)
    amp = Edfa(uid=f'edfa{i}', params=dict(eq['Edfa']['amp'].__dict__),
               operational={'gain_target': el['gain'], 'tilt_target': 0, 'out_voa': el['out_voa']})
    return amp, amp


def _roadm_impairment(el, f, name):
    """own reading of the ROADM impairment rules: a profile of the path's own type wins over the global pmd/pdl; inside
    a profile the first listed band containing the frequency applies"""
    if el['profile'] and el['profile']['type'] == el['path_type']:
        for b in el['profile']['bands']:
            if b['lo'] <= f <= b['hi']:
                return b[name]
        raise AssertionError('generator: profile does not cover the spectrum')
    return el[name]


def _chain(case, order, ctx, tag):
    """apply the elements in `order`; return every fibre's P_out/P_in and the final observables"""
    chans = case['comb']
    si = fibres.si_from(chans)
    freqs = [float(f) for f in si.frequency]
    per_fibre = {}
    for i in order:
        el = case['elements'][i]
        obj, apply = _build(el, i)
        before = [float(x) for x in si.pch]
        si = apply(si)
        if [float(f) for f in si.frequency] != freqs:
            ctx.violation(f'{el["kind"]}:channel-set-changed', f'{tag}: element {i}')
            return None
        if el['kind'] == 'fiber':
            after = [float(x) for x in si.pch]
            ratio = [a / b for a, b in zip(after, before)]
            per_fibre[i] = {'ratio': ratio}
    return {'freqs': freqs, 'pch': [float(x) for x in si.pch], 'cd': [float(x) for x in si.chromatic_dispersion],
            'pmd': [float(x) for x in si.pmd], 'pdl': [float(x) for x in si.pdl],
            'latency': [float(x) for x in si.latency], 'per_fibre': per_fibre}


def run_spans(case, ctx):
    from gnpy.core.parameters import SimParams
    SimParams.set_params({})
    try:
        _run_spans(case, ctx)
    finally:
        SimParams.set_params({})


def _run_spans(case, ctx):
    chans, els, perm = case['comb'], case['elements'], case['perm']
    n = len(els)
    fib_idx = [i for i, e in enumerate(els) if e['kind'] == 'fiber']
    identity = list(range(n))
    a = _chain(case, identity, ctx, 'given order')
    if a is None:
        return
    freqs = a['freqs']
    launch = {c['f']: 1e-3 * 10 ** (c['p_dbm'] / 10) for c in chans}

    # ---- labels
    kinds = {e['kind'] for e in els}
    ctx.label('fibres:' + str(len(fib_idx)))
    for k in sorted(kinds - {'fiber'}):
        ctx.label('with-' + k)
    for e in els:
        if e['kind'] == 'roadm':
            ctx.label('roadm:' + e['path_type'] + '-path,' + ('global' if not e['profile'] else ('own' if e['profile']['type'] == e['path_type'] else 'other') + '-profile-' + str(len(e['profile']['bands']))))
    distinct_fibres = len({repr(sorted(els[i]['params'].items(), key=lambda kv: kv[0])) for i in fib_idx})
    for i in fib_idx:
        fp = els[i]['params']
        ctx.label('loss:' + ('per-frequency' if isinstance(fp['loss_coef'], dict) else 'scalar'))
        ctx.label('lumped:' + str(len(fp.get('lumped_losses', []))))
        ctx.label('dispersion:' + ('per-frequency' if 'dispersion_per_frequency' in fp else 'slope'
                                   if 'dispersion_slope' in fp else 'scalar'))
        if _ref_frequency(fp) in freqs:
            ctx.label('ref-on-channel')
        ctx.label('length:' + ('<1km' if length_km(fp) < 1 else '1-150km' if length_km(fp) <= 150 else '>150km'),
                  'units:' + fp['length_units'])
    ctx.label('perm:' + ('identity' if perm == identity else 'non-identity'))
    ctx.nontrivial(distinct_fibres >= 2 and perm != identity)

    # ---- loss budget of every fibre, own arithmetic
    for i in fib_idx:
        fp = els[i]['params']
        for f, r in zip(freqs, a['per_fibre'][i]['ratio']):
            want = 10 ** (-budget_db(fp, f) / 10)
            if not _close(r, want, 1e-10):
                nl = len(fp.get('lumped_losses', []))
                kind = 'per-frequency-loss' if isinstance(fp['loss_coef'], dict) else 'scalar-loss'
                ctx.violation(f'Fiber.__call__:loss-budget({kind},lumped={"yes" if nl else "no"})',
                              f'fibre {i} ch {f}: P_out/P_in {r!r} = {-10 * math.log10(r):.6f} dB, budget '
                              f'{budget_db(fp, f):.6f} dB ({fp})')
                return

    # ---- accumulated quantities, own arithmetic
    lat = sum(length_km(els[i]['params']) * 1e3 * N1 / C for i in fib_idx)
    for k, f in enumerate(freqs):
        pmd2 = sum(els[i]['params']['pmd_coef'] ** 2 * length_km(els[i]['params']) * 1e3 for i in fib_idx)
        pdl2 = 0.0
        for e in els:
            if e['kind'] == 'roadm':
                pmd2 += _roadm_impairment(e, f, 'pmd') ** 2
                pdl2 += _roadm_impairment(e, f, 'pdl') ** 2
            elif e['kind'] == 'edfa':
                pmd2 += e['pmd'] ** 2
                pdl2 += e['pdl'] ** 2
            elif e['kind'] == 'mbamp':
                band = next(b for b in e['bands'] if b['lo'] <= f <= b['hi'])
                pmd2 += band['pmd'] ** 2
                pdl2 += band['pdl'] ** 2
        if not _close(a['pmd'][k], math.sqrt(pmd2), 1e-12, 1e-30):
            ctx.violation('path:pmd-not-quadrature-sum', f'ch {f}: {a["pmd"][k]!r} expected {math.sqrt(pmd2)!r}')
            return
        if not _close(a['pdl'][k], math.sqrt(pdl2), 1e-12, 1e-18):
            ctx.violation('path:pdl-not-quadrature-sum', f'ch {f}: {a["pdl"][k]!r} expected {math.sqrt(pdl2)!r}')
            return
        if not _close(a['latency'][k], lat, 1e-12):
            ctx.violation('path:latency-not-sum', f'ch {f}: {a["latency"][k]!r} expected {lat!r}')
            return

    # ---- chromatic dispersion
    alone = {}
    for i in fib_idx:
        fp = els[i]['params']
        si = fibres.si_from(chans)
        si = fibres.make_fiber(fp, uid=f'fiber{i}')(si)
        alone[i] = [float(x) for x in si.chromatic_dispersion]
        length_m = length_km(fp) * 1e3
        fref = _ref_frequency(fp)
        for k, f in enumerate(freqs):
            want = None
            if 'dispersion_per_frequency' in fp:
                if f == fref:
                    d = table_lookup(fp['dispersion_per_frequency'], f)
                    want = None if d is None else d * length_m
            elif 'dispersion_slope' not in fp or f == fref:
                want = fp['dispersion'] * length_m
            if want is not None and not _close(alone[i][k], want, 1e-12):
                where = 'at-ref-frequency' if f == fref else 'scalar-dispersion'
                ctx.violation(f'Fiber.chromatic_dispersion:{where}', f'fibre {i} ch {f}: {alone[i][k]!r} expected D*L {want!r}')
                return
    scale = [sum(abs(alone[i][k]) for i in fib_idx) for k in range(len(freqs))]
    for k, f in enumerate(freqs):
        want = math.fsum(alone[i][k] for i in fib_idx)
        if abs(a['cd'][k] - want) > 1e-12 * scale[k]:
            ctx.violation('path:cd-not-sum-of-spans', f'ch {f}: total {a["cd"][k]!r} sum of single spans {want!r}')
            return

    # ---- a permutation of the elements changes none of it
    if perm != identity:
        b = _chain(case, perm, ctx, 'permuted order')
        if b is None:
            return
        for name, rtol in (('cd', None), ('pmd', 1e-12), ('pdl', 1e-12), ('latency', 1e-12)):
            for k, f in enumerate(freqs):
                x, y = a[name][k], b[name][k]
                ok = abs(x - y) <= 1e-12 * scale[k] if name == 'cd' else _close(x, y, rtol, 1e-30)
                if not ok:
                    ctx.violation(f'path:{name}-depends-on-span-order', f'ch {f}: {x!r} vs {y!r} (perm {perm})')
                    return
        for i in fib_idx:
            for k, f in enumerate(freqs):
                if not _close(a['per_fibre'][i]['ratio'][k], b['per_fibre'][i]['ratio'][k], 1e-12):
                    ctx.violation('path:fibre-loss-depends-on-position', f'fibre {i} ch {f}')
                    return
        if kinds == {'fiber'}:
            for k, f in enumerate(freqs):
                if not _close(a['pch'][k], b['pch'][k], 1e-12 * n):
                    ctx.violation('path:total-loss-depends-on-span-order', f'ch {f}: {a["pch"][k]!r} vs {b["pch"][k]!r}')
                    return
    if kinds == {'fiber'}:
        for k, f in enumerate(freqs):
            tot = sum(budget_db(els[i]['params'], f) for i in fib_idx)
            if not _close(a['pch'][k], launch[f] * 10 ** (-tot / 10), 1e-10 * n):
                ctx.violation('path:total-loss-not-sum-of-budgets', f'ch {f}: {a["pch"][k]!r} for launch {launch[f]!r} '
                                                                    f'and {tot!r} dB')
                return


# ------------------------------------------------------------------------------------------------ Raman on

def _raman_run(chans, powers, fp, method, order, step, res, cls=None, operational=None):
    """P_out/P_in per channel through the real element with the Raman solver on; also returns the element"""
    from gnpy.core.parameters import SimParams
    SimParams.set_params({'raman_params': {'flag': True, 'method': method, 'order': order,
                                           'solver_spatial_resolution': step, 'result_spatial_resolution': res},
                          'nli_params': {'method': 'gn_model_analytic'}})
    si = fibres.si_from(chans, powers)
    fib = fibres.make_fiber(fp, cls=cls, operational=operational)
    before = [float(x) for x in si.pch]
    si = fib(si)
    return [float(a) / b for a, b in zip(si.pch, before)], [float(f) for f in si.frequency], fib


def solver_grid(length_m, step, lumped):
    """z grid of the solver: 0, step, 2 step, ... (< L), L, plus every lumped-loss position [m]"""
    z = {i * step for i in range(int(math.ceil(length_m / step)))}
    z.add(length_m)
    z.update(ll['position'] * 1e3 for ll in lumped)
    return sorted(x for x in z if 0 <= x <= length_m)


def euler_log(alpha, z):
    """ln of the exact discrete Euler product  prod_k (1 - alpha dz_k)"""
    return math.fsum(math.log1p(-alpha * (z[k + 1] - z[k])) for k in range(len(z) - 1))


def run_raman(case, ctx):
    from gnpy.core.parameters import SimParams
    SimParams.set_params({})
    try:
        _run_raman(case, ctx)
    finally:
        SimParams.set_params({})


def _run_raman(case, ctx):
    chans, fp, order, step, res = case['comb'], case['fiber'], case['order'], case['step'], case['res']
    n = len(chans)
    length_m = fp['length'] * 1e3
    low = [1e-12] * n      # -90 dBm: residual SRS g*L_eff < 1e-9 even for 24 channels on a 30 um^2 / 0.12 dB/km fibre
    lumped = fp.get('lumped_losses', [])
    fp_extra = dict(fp, lumped_losses=lumped + [case['extra']])
    methods = [case['first'], 'numerical' if case['first'] == 'perturbative' else 'perturbative']
    ctx.label('order:' + str(order), 'lumped:' + str(len(lumped)), 'first:' + case['first'],
              'loss:' + ('per-frequency' if isinstance(fp['loss_coef'], dict) else 'scalar'),
              'extra:' + ('on-grid' if case['extra_on_grid'] else 'off-grid'),
              'alpha*dz:' + ('<0.05' if loss_db_per_km(fp['loss_coef'], chans[0]['f']) / 4.343e3 * step < 0.05 else '>=0.05'),
              'grid:' + ('1-step' if step >= length_m else 'multi-step'))
    ctx.nontrivial(True)

    def expected_log(fpx, f, method):
        a = loss_db_per_km(fpx['loss_coef'], f) / (10 * math.log10(math.e)) * 1e-3       # 1/m
        conn = -(fpx['att_in'] + fpx['con_in'] + fpx['con_out'] + sum(ll['loss'] for ll in fpx['lumped_losses'])) \
            / 10 * math.log(10)
        if method == 'perturbative':
            return conn - a * length_m
        return conn + euler_log(a, solver_grid(length_m, step, fpx['lumped_losses']))

    out = {}
    for method in methods:
        # (a) low-power limit, and (c) one more lumped loss, both against the exact linear budget of the method
        for name, fpx in (('as-given', dict(fp, lumped_losses=lumped)), ('extra-lumped', fp_extra)):
            ratio, freqs, _ = _raman_run(chans, low, fpx, method, order, step, res)
            out[(method, name)] = ratio
            for f, r in zip(freqs, ratio):
                want = expected_log(fpx, f, method)
                if not (r > 0) or abs(math.log(r) - want) > 1e-6:
                    ctx.violation(f'RamanSolver({method}):low-power-limit-differs-from-loss-budget(lumped={"yes" if fpx["lumped_losses"] else "no"})',
                                  f'{name}: ch {f}: ln(P_out/P_in) {math.log(r) if r > 0 else r!r} expected {want!r} '
                                  f'(order {order}, step {step}, L {length_m}, lumped {fpx["lumped_losses"]})')
                    return
        # (c) metamorphic form: the inserted loss multiplies the output by exactly its value (times the grid factor
        # of the Euler scheme when the new position adds a grid point)
        ell = 10 ** (-case['extra']['loss'] / 10)
        for k, f in enumerate(freqs):
            a = loss_db_per_km(fp['loss_coef'], f) / (10 * math.log10(math.e)) * 1e-3
            grid = 1.0
            if method == 'numerical':
                grid = math.exp(euler_log(a, solver_grid(length_m, step, fp_extra['lumped_losses']))
                                - euler_log(a, solver_grid(length_m, step, lumped)))
            got = out[(method, 'extra-lumped')][k] / out[(method, 'as-given')][k]
            if not _close(got, ell * grid, 1e-6):
                ctx.violation(f'RamanSolver({method}):inserted-lumped-loss-not-applied-once',
                              f'ch {f}: output ratio {got!r} expected {ell * grid!r} (loss {case["extra"]}, step {step})')
                return

    # (b) both methods at 0..+3 dBm per channel
    powers = [1e-3 * 10 ** (c['p_dbm'] / 10) for c in chans]
    hp, freqs, fib = _raman_run(chans, powers, dict(fp, lumped_losses=lumped), 'perturbative', order, step, res)
    hn, _, _ = _raman_run(chans, powers, dict(fp, lumped_losses=lumped), 'numerical', order, step, res)
    import numpy as np
    cr = np.abs(fib.cr(np.array(freqs)))
    p_in = np.array([powers[i] for i in sorted(range(n), key=lambda i: chans[i]['f'])]) \
        * 10 ** (-(fp['att_in'] + fp['con_in']) / 10)
    g = float(np.max(cr @ p_in))                                   # 1/m, largest Raman rate at the fibre input
    worst = 0.0
    for k, f in enumerate(freqs):
        a = loss_db_per_km(fp['loss_coef'], f) / (10 * math.log10(math.e)) * 1e-3
        z = solver_grid(length_m, step, lumped)
        dz = max(z[i + 1] - z[i] for i in range(len(z) - 1))
        lin = euler_log(a, z) + a * length_m                       # exact linear part of ln(P_num/P_pert)
        leff = (1 - math.exp(-a * length_m)) / a
        bound = (3 + len(lumped)) * g * dz / (1 - a * dz) + (g * leff) ** (order + 1) + 1e-9
        d = math.log(hn[k] / hp[k]) - lin
        worst = max(worst, abs(d) / bound)
        if abs(d) > bound:
            ctx.violation('RamanSolver:perturbative-and-numerical-disagree',
                          f'ch {f}: ln(P_num/P_pert) {math.log(hn[k] / hp[k])!r}, linear Euler term {lin!r}, remainder '
                          f'{d!r} > bound {bound!r} (g {g!r}, dz {dz}, order {order}, L {length_m})')
            return
    ctx.label('agreement-margin:' + ('<10%' if worst < 0.1 else '10-50%' if worst < 0.5 else '50-100%'))


def run_pumps(case, ctx):
    from gnpy.core.parameters import SimParams
    SimParams.set_params({})
    try:
        _run_pumps(case, ctx)
    finally:
        SimParams.set_params({})


def _run_pumps(case, ctx):
    from gnpy.core.elements import RamanFiber
    chans, fp, pumps = case['comb'], case['fiber'], case['pumps']
    fp = dict(fp, lumped_losses=fp.get('lumped_losses', []))
    powers = [1e-3 * 10 ** (c['p_dbm'] / 10) for c in chans]
    counter = any(p['propagation_direction'] == 'counterprop' for p in pumps)
    co = any(p['propagation_direction'] == 'coprop' for p in pumps)
    ctx.label('pumps:' + str(len(pumps)), 'direction:' + ('co+counter' if co and counter else 'counter' if counter else 'co'),
              'method:' + case['method'], 'lumped:' + str(len(fp['lumped_losses'])))
    ctx.nontrivial(True)
    base_method = 'numerical' if counter else case['method']
    without, freqs, _ = _raman_run(chans, powers, fp, base_method, case['order'], case['step'], case['res'])
    with_p, _, fib = _raman_run(chans, powers, fp, case['method'], case['order'], case['step'], case['res'],
                                cls=RamanFiber, operational={'temperature': case['temperature'], 'raman_pumps': pumps})
    # the same RamanFiber with its pumps turned down to nothing attenuates like the plain fibre (whole budget: padding and
    # connectors included)
    dark = [dict(pp, power=1e-12) for pp in pumps]
    off, _, _ = _raman_run(chans, powers, fp, base_method, case['order'], case['step'], case['res'],
                           cls=RamanFiber, operational={'temperature': case['temperature'], 'raman_pumps': dark})
    for f, o, wo in zip(freqs, off, without):
        if not (math.isfinite(o) and abs(o - wo) <= 1e-6 * wo):
            ctx.violation('RamanFiber.__call__:pumps-off-differs-from-plain-fibre',
                          f'ch {f}: P_out/P_in {o!r} with pumps at 1e-12 W, plain fibre {wo!r} (att_in {fp.get("att_in")}, '
                          f'con_in {fp.get("con_in")})')
            return
    gains = []
    for f, w, wo in zip(freqs, with_p, without):
        if not (math.isfinite(w) and w > 0):
            ctx.violation('RamanFiber.__call__:non-finite-output-with-pumps',
                          f'ch {f}: P_out/P_in with pumps {w!r} (pumps {pumps}, step {case["step"]}, fibre {fp})')
            return
        if not (w >= wo * (1 - 1e-6)):
            ctx.violation('RamanFiber.__call__:pumps-reduce-channel-power',
                          f'ch {f}: P_out/P_in with pumps {w!r} < without {wo!r} (pumps {pumps}, step {case["step"]})')
            return
        gains.append(10 * math.log10(w / wo))
    ctx.label('gain:' + ('<1dB' if max(gains) < 1 else '1-5dB' if max(gains) < 5 else '>5dB'))



# ------------------------------------------------------------------------------------------------ designed paths

def _designed_cases():
    from pbt.props import _paths
    def analytic(case):
        # the NLI method is irrelevant for CD / PMD / latency; the single-channel ggn_approx crash is recorded under C01/C02
        case['sim']['nli_params'].update(method='gn_model_analytic', computed_channels=None)
        return case
    return _paths.path_case(n=(2, 3), max_ch=8).map(analytic)

def run_designed_path(case, ctx):
    """CD, latency and fibre PMD reported at the receiver of a real propagation through an auto-designed network equal the
    sums over the fibres *as the user wrote them* (auto-design may split them and add amplifiers, never length)."""
    import numpy as np
    from pbt.props import _paths
    p = _paths.prepare(case, ctx)
    if p is None:
        return
    if p.error is not None:
        ctx.label('skipped:no-channel-in-band')
        return
    el_json = {e['uid']: e for e in case['topo']['elements']}
    lib_f = {f['type_variety']: f for f in case['eq']['Fiber']}
    lib_a = {a['type_variety']: a for a in case['eq']['Edfa']}
    from gnpy.core import elements
    # user fibres crossed by the path: pieces of a split fibre are named <uid>_(k/n)
    crossed, split = {}, False
    for el in p.path:
        if isinstance(el, elements.Fiber):
            base = el.uid.split('_(')[0]
            split |= base != el.uid
            crossed[base] = el_json[base]
    if not crossed:
        ctx.label('skipped:no-fibre')
        return
    lat = cd = pmd2 = 0.0
    cd_known = True
    for uid, e in crossed.items():
        L = e['params']['length'] * 1e3
        ft = lib_f[e['type_variety']]
        lat += L * N1 / C
        pmd2 += e['params'].get('pmd_coef', ft['pmd_coef']) ** 2 * L
        if 'dispersion_slope' in ft or 'dispersion_slope' in e['params'] or 'dispersion_per_frequency' in ft:
            cd_known = False
        else:
            cd += e['params'].get('dispersion', ft['dispersion']) * L
    rx = p.path[-1]
    got_lat = np.asarray(rx.latency, dtype=float) * np.ones(1)
    if np.max(np.abs(got_lat * 1e-3 - lat)) > 1e-9 * lat:        # Transceiver reports latency in ms
        ctx.violation('latency-not-sum-over-user-fibres',
                      f'{got_lat[:2] * 1e-3} s, fibres {sorted(crossed)} give {lat!r} s (split: {split})')
        return
    if cd_known:
        got_cd = np.asarray(rx.chromatic_dispersion, dtype=float)
        if np.max(np.abs(got_cd * 1e-3 - cd)) > 1e-9 * max(abs(cd), 1e-12):     # ps/nm -> s/m
            ctx.violation('cd-not-sum-over-user-fibres', f'{got_cd[:2] * 1e-3} vs {cd!r}')
            return
    # PMD: fibres in quadrature plus what ROADMs and amplifiers add; at least the fibre part, at most fibre + elements
    got_pmd = np.asarray(rx.pmd, dtype=float) * 1e-12
    if np.min(got_pmd) < (pmd2 ** 0.5) * (1 - 1e-9):
        ctx.violation('pmd-below-fibre-contribution', f'{got_pmd[:2]} < {pmd2 ** 0.5!r}')
        return
    ctx.label('split:yes' if split else 'split:no', f'fibres:{min(len(crossed), 4)}', 'cd:judged' if cd_known else 'cd:slope-not-judged')
    ctx.nontrivial(split or len(crossed) >= 2)


CHECKS = [
    Check('spans', span_cases(), run_spans, quick=1500, thorough=48000,
          doc='Raman off: per-fibre loss budget, CD/latency sums, PMD/PDL quadrature incl. ROADM and amplifier, span order'),
    Check('raman', raman_cases(), run_raman, quick=120, thorough=3200,
          doc='Raman on, no pumps: low-power limit per method, inserted lumped loss, perturbative vs numerical'),
    Check('pumps', pump_cases(), run_pumps, quick=60, thorough=1600,
          doc='Raman on: pumps above the channels only add gain'),
    Check('designed-path', _designed_cases(), run_designed_path, quick=200, thorough=6000,
          doc='receiver CD / latency / PMD of a real propagation through an auto-designed network vs sums over the user fibres'),
]

FLOORS = {
    'spans:perm:non-identity': (0.4, 'spans'),
    'spans:with-roadm': (0.1, 'spans'),
    'spans:with-edfa': (0.1, 'spans'),
    'spans:loss:per-frequency': (0.1, 'spans'),
    'raman:lumped:1': (0.1, 'raman'),
}
