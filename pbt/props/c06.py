"""C06 — a ROADM never amplifies and equalises every channel to its egress target (DESIGN §3 C06).

crossing      generated star network around one ROADM (pbt/gens/roadmgen.py): node policy on the element or inherited
              from the library, per-degree overrides of any kind, optional detailed path impairments with per-band
              roadm-maxloss and per-degree impairment ids; the REAL design is run (designed_network) and the ROADM is
              then called for express / add / drop crossings with generated spectra.  Everything expected is
              re-derived from the case JSON with `math`.
zero-target   same, with a node-level constant-power target of exactly 0 dBm on every case (legal number; finding #2 of
              DESIGN §6, repaired in /repo by dd79e172: kept as a regression; `crossing` reaches 0 dBm as well)
sparse-profile same, with impairment profiles that omit roadm-pmd / roadm-pdl like the example in docs/json.rst
policy        exactly one equalisation policy: two node-level policies are rejected by the library loader, by the
              topology loader and by the element constructor; an element policy replaces the library default; to_json
              reports exactly one node-level key.
"""
import copy
import math

from hypothesis import strategies as st

from pbt.runner import Check
from pbt.gens import netgen, spectra, roadmgen
from pbt.gens.roadmgen import POLICY_KEYS, DEGREE_KEY, PATH_KEY, BAND

PROPERTY = 'C06'
RULE = ('crossing: star of 1-4 line degrees + add/drop around one ROADM; node policy (power/PSD/PSW) on the element or '
        'from the library variety; per-degree overrides of any kind on named degrees (user booster / Fused / drop port); '
        'optional roadm-path-impairments (0-2 profiles per path type, 1-3 frequency ranges, per-band roadm-maxloss, '
        'per-degree impairment ids); real auto-design; 1-3 crossings (express/add/drop) each with its own comb of 1-40 '
        'channels (mixed baud/slot, delta_pdb offsets, -45..+5 dBm, incoming PMD/PDL). Non-trivial = a crossing with >=1 '
        'channel clipped to its input and >=1 equalised to target, or an egress override of another kind than the node '
        'policy. policy: generated conflicting / replacing policy settings. distinct = distinct sha1 of the case JSON.')
ASSUMPTIONS = [
    'degree name = uid of the element adjacent to the ROADM in the designed network (docs/json.rst)',
    'channel centre frequencies lie inside the frequency ranges of the impairment profile in force',
    'a profile range that omits roadm-maxloss contributes 0 dB (documented default); omitted roadm-pmd / roadm-pdl are '
    'only required not to crash (docs do not say whether 0 or the general ROADM value applies)',
    'the target applies to the total channel power (signal + noise), as stated in docs/json.rst',
]

TOL_DB = 1e-9


# ------------------------------------------------------------------------------------------- generators

@st.composite
def _equipment(draw, zero='never', sparse=False):
    rl = draw(roadmgen.roadm_library(zero=zero, sparse=sparse))
    eq = draw(netgen.equipment(edfa=roadmgen.line_amps(), roadm=rl, trx=roadmgen.trx_lib()))
    return eq


@st.composite
def _crossings(draw, degrees, n=(1, 3)):
    out = []
    for _ in range(draw(st.integers(*n))):
        kind = draw(st.sampled_from(['add', 'drop', 'express', 'express', 'add', 'drop']))
        c = {'kind': kind,
             'in_link': draw(st.integers(1, len(degrees))), 'out_link': draw(st.integers(1, len(degrees))),
             'comb': draw(spectra.comb(1, draw(st.sampled_from([1, 3, 12, 40, 60])),
                                       f_start=draw(st.sampled_from([(191_300_000, 195_600_000), (191_300_000, 191_300_000),
                                                                     (191_700_000, 191_900_000), (193_300_000, 193_600_000),
                                                                     (194_600_000, 194_900_000)])),
                                       power=(-45.0, 5.0), f_stop=196_100_000)),
             'pmd_in': draw(st.sampled_from([0.0, 0.0, 2e-12, 7.5e-13])), 'pdl_in': draw(st.sampled_from([0.0, 0.0, 0.4, 1.1]))}
        out.append(c)
    return out


@st.composite
def crossing_case(draw, zero_lib='allowed', zero_node='allowed', sparse=False, force_variety=None):
    eq = draw(_equipment(zero=zero_lib, sparse=sparse))
    topo, degrees = draw(roadmgen.star(eq['Roadm'], zero=zero_node, force_variety=force_variety))
    return {'eq': eq, 'topo': topo, 'degrees': degrees, 'crossings': draw(_crossings(degrees)),
            'redesign_on_path': draw(st.booleans())}


@st.composite
def zero_case(draw):
    where = draw(st.sampled_from(['element', 'library']))
    if where == 'element':
        eq = draw(_equipment())
        topo, degrees = draw(roadmgen.star(eq['Roadm'], zero='always'))
    else:
        eq = draw(_equipment(zero='always'))
        topo, degrees = draw(roadmgen.star(eq['Roadm'], zero='never', force_variety=draw(st.sampled_from(['det', 'alt']))))
        centre = next(e for e in topo['elements'] if e['uid'] == 'roadm R0')
        for k in POLICY_KEYS:
            centre['params'].pop(k, None)        # inherit the 0 dBm target of the library
    return {'eq': eq, 'topo': topo, 'degrees': degrees, 'crossings': draw(_crossings(degrees))}


# ------------------------------------------------------------------------------------------- oracle

def _target_dbm(kind, value, chan):
    """docs/json.rst 'Equalization choices': power -> value [dBm]; PSD [mW/GHz] x baud rate; PSW [mW/GHz] x slot"""
    if kind == 'target_pch_out_db':
        return float(value)
    if kind == 'target_psd_out_mWperGHz':
        return 10 * math.log10(value * chan['baud'] / 1e9)
    if kind == 'target_out_mWperSlotWidth':
        return 10 * math.log10(value * chan['slot'] / 1e9)
    raise AssertionError(kind)


def resolve_node_policy(case):
    """(key, value, source) of the node-level policy in force for the centre"""
    centre = next(e for e in case['topo']['elements'] if e['uid'] == 'roadm R0')
    own = [(k, centre['params'][k]) for k in POLICY_KEYS if k in centre['params']]
    if own:
        return own[0][0], own[0][1], 'element'
    variety = centre.get('type_variety')
    lib = next(e for e in case['eq']['Roadm'] if e.get('type_variety') == variety)
    k = next(k for k in POLICY_KEYS if k in lib)
    return k, lib[k], 'library'


def resolve_degree_policy(case, degree_uid):
    centre = next(e for e in case['topo']['elements'] if e['uid'] == 'roadm R0')
    for k in POLICY_KEYS:
        d = centre['params'].get(DEGREE_KEY[k], {})
        if degree_uid in d:
            return k, d[degree_uid]
    return None


def resolve_impairment(case, kind, from_uid, to_uid):
    """profile ranges in force for the internal path, or None when the general ROADM values apply"""
    centre = next(e for e in case['topo']['elements'] if e['uid'] == 'roadm R0')
    variety = centre.get('type_variety')
    lib = next(e for e in case['eq']['Roadm'] if e.get('type_variety') == variety)
    profiles = lib.get('roadm-path-impairments', [])
    pid = None
    for item in centre['params'].get('per_degree_impairments', []):
        if item['from_degree'] == from_uid and item['to_degree'] == to_uid:
            pid = item['impairment_id']
    if pid is not None:
        p = next(p for p in profiles if p['roadm-path-impairments-id'] == pid)
        return p[PATH_KEY[kind]], lib
    for p in profiles:          # first listed profile of the right type is the default
        if PATH_KEY[kind] in p:
            return p[PATH_KEY[kind]], lib
    return None, lib


def _range_of(ranges, f):
    for r in ranges:
        fr = r['frequency-range']
        if fr['lower-frequency'] <= f <= fr['upper-frequency']:
            return r
    return None


def _degree_uids(network, roadm):
    """{link: egress uid}, {link: ingress uid} of the designed network (auto-inserted amplifiers included)"""
    from gnpy.core import elements
    eg, ing = {}, {}
    for n in network.successors(roadm):
        if not isinstance(n, elements.Transceiver):
            eg[netgen.link_of(n.uid)[0]] = n.uid
    for n in network.predecessors(roadm):
        if not isinstance(n, elements.Transceiver):
            ing[netgen.link_of(n.uid)[0]] = n.uid
    return eg, ing


def _design(case):
    from gnpy.tools.worker_utils import designed_network
    equipment, network = netgen.build_network(case['eq'], case['topo'])
    network, req, ref_req = designed_network(equipment, network, source='trx R0', destination='trx R1')
    if case.get('redesign_on_path'):
        # what a power sweep / a per-request redesign does before propagating: design again on the sub-graph of one path
        # (trx R0 -> trx R1 leaves the ROADM through one degree only); the settings of the other degrees must survive
        from gnpy.core.network import design_network
        from gnpy.topology.request import compute_constrained_path
        path = compute_constrained_path(network, req)
        if path:
            design_network(ref_req, network.subgraph(path), equipment, set_connector_losses=False, verbose=False)
            # ... and a later design of the whole network again (each simulation designs what it is about to cross; the
            # reference input powers of a ROADM are reset by every design)
            design_network(ref_req, network, equipment, set_connector_losses=False, verbose=False)
    roadm = next(n for n in network.nodes() if n.uid == 'roadm R0')
    return equipment, network, roadm


def run_crossing(case, ctx, expect_zero=False):
    import numpy as np
    from gnpy.core.exceptions import ConfigurationError
    netgen.reset_sim_params()
    try:
        node_k, node_v, source = resolve_node_policy(case)
        try:
            equipment, network, roadm = _design(case)
        except ConfigurationError as e:
            if node_k == 'target_pch_out_db' and node_v == 0 and 'needs an equalization target' in str(e):
                ctx.label('design:rejected-zero-target')
                ctx.violation('design-rejects-0dBm-power-target-as-unset',
                              f'node policy target_pch_out_db=0 (from {source}) is a legal constant-power target but auto-design '
                              f'raised ConfigurationError{e.args}')
                return
            raise
        ctx.label('policy-source:' + source, 'node-policy:' + node_k)
        if case.get('redesign_on_path'):
            ctx.label('history:redesigned-on-one-path-first')
        if node_k == 'target_pch_out_db' and node_v == 0:
            ctx.label('node-policy:0dBm')
        eg, ing = _degree_uids(network, roadm)
        # exactly one node-level policy in force on the element and in its export
        live = [k for k, a in zip(POLICY_KEYS, ('target_pch_out_dbm', 'target_psd_out_mWperGHz', 'target_out_mWperSlotWidth'))
                if getattr(roadm, a) is not None]
        if live != [node_k]:
            ctx.violation('node-policy-in-force', f'expected exactly [{node_k}] (from {source}), element has {live}')
        exported = [k for k in POLICY_KEYS if k in roadm.to_json['params']]
        if exported != [node_k] or roadm.to_json['params'].get(node_k) != node_v:
            ctx.violation('to_json-node-policy', f'expected exactly {{{node_k}: {node_v}}}, exported '
                                                 f'{ {k: roadm.to_json["params"][k] for k in exported} }')
        nontrivial = False
        for x in case['crossings']:
            kind = x['kind']
            frm = 'trx R0' if kind == 'add' else ing[x['in_link']]
            to = 'trx R0' if kind == 'drop' else eg[x['out_link']]
            chans = sorted(x['comb'], key=lambda c: c['f'])
            si = spectra.comb_to_si(x['comb'])
            si.pmd = np.full(len(chans), x['pmd_in'])
            si.pdl = np.full(len(chans), x['pdl_in'])
            p_in = [float(v) for v in si.pch]
            dpol = resolve_degree_policy(case, to)
            pol = dpol if dpol is not None else (node_k, node_v)
            ranges, lib = resolve_impairment(case, kind, frm, to)
            try:
                out = roadm(si, degree=to, from_degree=frm)
            except (TypeError, ValueError) as e:
                hit = [] if ranges is None else [_range_of(ranges, c['f']) for c in chans]
                if any('roadm-pmd' not in r or 'roadm-pdl' not in r for r in hit):
                    ctx.label('crossing-crashed:profile-omits-pmd-or-pdl')
                    ctx.violation('profile-omitting-roadm-pmd-or-pdl-crashes-propagate',
                                  f'{kind} {frm}->{to}: the impairment profile in force gives no roadm-pmd / roadm-pdl (optional, '
                                  f'omitted in the docs example) and Roadm.propagate raised {type(e).__name__}: {e}')
                    continue
                raise
            # ---- expected
            judged_pmd = judged_pdl = True
            exp_out, in_dbm, maxloss, pmd_path, pdl_path = [], [], [], [], []
            for c, p in zip(chans, p_in):
                i_dbm = 10 * math.log10(p / 1e-3)
                if ranges is None:
                    ml, pm, pd = 0.0, lib['pmd'], lib['pdl']
                else:
                    r = _range_of(ranges, c['f'])
                    ml = r.get('roadm-maxloss', 0.0)
                    pm, pd = r.get('roadm-pmd'), r.get('roadm-pdl')
                    judged_pmd &= pm is not None
                    judged_pdl &= pd is not None
                t = _target_dbm(pol[0], pol[1], c) + c['dp']
                in_dbm.append(i_dbm)
                maxloss.append(ml)
                pmd_path.append(pm)
                pdl_path.append(pd)
                exp_out.append(min(t, i_dbm - ml))
            where = f'{kind} {frm}->{to} policy {pol[0]}={pol[1]}' + (' (degree override)' if dpol else f' (node, {source})')
            got = [float(v) for v in out.pch_dbm]
            n_clip = n_eq = 0
            for j, c in enumerate(chans):
                if got[j] > in_dbm[j] - maxloss[j] + TOL_DB:
                    ctx.violation('roadm-amplifies', f'{where}: ch {c["f"]}: in {in_dbm[j]!r} dBm, path loss {maxloss[j]}, out '
                                                     f'{got[j]!r} dBm')
                    break
                if abs(got[j] - exp_out[j]) > TOL_DB:
                    t = exp_out[j] if exp_out[j] < in_dbm[j] - maxloss[j] else None
                    ctx.violation('egress-power-not-min(target+offset,in-loss)',
                                  f'{where}: ch {c["f"]} (baud {c["baud"]}, slot {c["slot"]}, offset {c["dp"]}): in {in_dbm[j]!r}, '
                                  f'maxloss {maxloss[j]}, expected {exp_out[j]!r}, got {got[j]!r}')
                    break
                if exp_out[j] < in_dbm[j] - maxloss[j]:
                    n_eq += 1
                else:
                    n_clip += 1
            rep_out = [float(v) for v in roadm.pch_out_dbm]
            rep_loss = [float(v) for v in roadm.loss_pch_db]
            if any(abs(a - b) > TOL_DB for a, b in zip(rep_out, got)) or len(rep_out) != len(got):
                ctx.violation('reported-pch_out_dbm', f'{where}: reported {rep_out[:3]} actual {got[:3]}')
            if any(abs(l - (i - o)) > TOL_DB for l, i, o in zip(rep_loss, in_dbm, got)) or len(rep_loss) != len(got):
                ctx.violation('reported-loss_pch_db', f'{where}: reported {rep_loss[:3]} actual {[i - o for i, o in zip(in_dbm, got)][:3]}')
            if [float(f) for f in out.frequency] != [c['f'] for c in chans]:
                ctx.violation('channel-set-changed', where)
            # PMD / PDL in quadrature
            for name, judged, inc, path, res in (('pmd', judged_pmd, x['pmd_in'], pmd_path, out.pmd),
                                                 ('pdl', judged_pdl, x['pdl_in'], pdl_path, out.pdl)):
                if not judged:
                    ctx.label(f'not-judged:{name}-omitted-in-profile')
                    continue
                for j, c in enumerate(chans):
                    want = math.sqrt(inc ** 2 + path[j] ** 2)
                    if abs(float(res[j]) - want) > 1e-12 * want:
                        ctx.violation(f'{name}-not-in-quadrature', f'{where}: ch {c["f"]}: in {inc}, path {path[j]}, '
                                                                   f'expected {want!r}, got {float(res[j])!r}')
                        break
            # labels
            ctx.label('crossing:' + kind, 'egress-policy:' + pol[0])
            if dpol is not None:
                ctx.label('egress:degree-override' + (':other-kind' if dpol[0] != node_k else ':same-kind'))
                if to == 'trx R0':
                    ctx.label('egress:drop-port-override')
            ctx.label('impairments:' + ('general' if ranges is None else 'profile'))
            if ranges is not None and any(m > 0 for m in maxloss):
                ctx.label('impairments:maxloss>0')
            if len(set(maxloss)) > 1:
                ctx.label('impairments:maxloss-differs-per-band')
            if n_clip and n_eq:
                ctx.label('mixed:clipped+equalised')
            elif n_clip:
                ctx.label('all-clipped')
            else:
                ctx.label('all-equalised')
            if pol == ('target_pch_out_db', 0) or (pol[0] == 'target_pch_out_db' and pol[1] == 0):
                ctx.label('egress-target:0dBm')
            if frm not in ('trx R0',) and kind != 'add' and not any(d['ingress'] == frm for d in case['degrees']):
                ctx.label('degree:auto-inserted-preamp')
            if to != 'trx R0' and not any(d['egress'] == to for d in case['degrees']):
                ctx.label('degree:auto-inserted-booster')
            nontrivial |= bool(n_clip and n_eq) or (dpol is not None and dpol[0] != node_k)
        ctx.nontrivial(nontrivial)
    finally:
        netgen.reset_sim_params()


# ------------------------------------------------------------------------------------------- single policy

@st.composite
def policy_case(draw):
    mode = draw(st.sampled_from(['library-two', 'library-none', 'element-two', 'constructor-two', 'element-replaces',
                                 'element-replaces', 'library-inherited']))
    eq = draw(_equipment())
    topo, degrees = draw(roadmgen.star(eq['Roadm'], zero='never'))
    centre = next(e for e in topo['elements'] if e['uid'] == 'roadm R0')
    for k in POLICY_KEYS:
        centre['params'].pop(k, None)
    variety = centre.get('type_variety')
    lib = next(e for e in eq['Roadm'] if e.get('type_variety') == variety)
    lib_k = next(k for k in POLICY_KEYS if k in lib)
    vals = {'target_pch_out_db': draw(st.sampled_from([-20, -17, 0, -25.5])),
            'target_psd_out_mWperGHz': draw(st.sampled_from([3.125e-4, 2e-4])),
            'target_out_mWperSlotWidth': draw(st.sampled_from([2e-4, 3.5e-4]))}
    others = [k for k in POLICY_KEYS if k != lib_k]
    extra = {}
    if mode == 'library-two':
        k2 = draw(st.sampled_from(others))
        lib[k2] = vals[k2]
    elif mode == 'library-none':
        del lib[lib_k]
    elif mode in ('element-two', 'constructor-two'):
        ks = draw(st.sampled_from([list(POLICY_KEYS), [POLICY_KEYS[0], POLICY_KEYS[1]], [POLICY_KEYS[1], POLICY_KEYS[2]],
                                   [POLICY_KEYS[0], POLICY_KEYS[2]]]))
        for k in ks:
            centre['params'][k] = vals[k]
    elif mode == 'element-replaces':
        k2 = draw(st.sampled_from(others + [lib_k]))
        v = vals[k2]
        centre['params'][k2] = v
        extra = {'expect': [k2, v]}
    else:
        extra = {'expect': [lib_k, lib[lib_k]]}
    return {'mode': mode, 'eq': eq, 'topo': topo, **extra}


def run_policy(case, ctx):
    from gnpy.core.exceptions import EquipmentConfigError, ConfigurationError, ParametersError
    from gnpy.core.elements import Roadm
    from gnpy.tools.json_io import network_to_json
    mode = case['mode']
    ctx.label('mode:' + mode)
    netgen.reset_sim_params()
    try:
        if mode in ('library-two', 'library-none'):
            try:
                netgen.load_equipment(case['eq'])
            except EquipmentConfigError:
                ctx.nontrivial()
                return
            ctx.violation(f'{mode}-policies-accepted-by-library-loader', 'a Roadm library entry must carry exactly one policy')
            return
        if mode == 'element-two':
            try:
                netgen.build_network(case['eq'], case['topo'])
            except (ConfigurationError, ParametersError):
                ctx.nontrivial()
                return
            ctx.violation('two-policies-accepted-by-topology-loader', 'roadm R0 carries several node-level policies')
            return
        if mode == 'constructor-two':
            centre = next(e for e in case['topo']['elements'] if e['uid'] == 'roadm R0')
            params = {'add_drop_osnr': 38, 'pmd': 0, 'pdl': 0, 'roadm-path-impairments': [],
                      'restrictions': {'preamp_variety_list': [], 'booster_variety_list': []}}
            params.update({k: centre['params'][k] for k in POLICY_KEYS if k in centre['params']})
            try:
                Roadm(uid='r', params=params)
            except ParametersError:
                ctx.nontrivial()
                return
            ctx.violation('two-policies-accepted-by-element-constructor', f'{sorted(k for k in params if k in POLICY_KEYS)}')
            return
        # one policy in force: before and after design, and in the export
        k, v = case['expect']
        equipment, network = netgen.build_network(case['eq'], case['topo'])
        for stage in ('loaded', 'designed'):
            if stage == 'designed':
                from gnpy.tools.worker_utils import designed_network
                network, _, _ = designed_network(equipment, network, source='trx R0', destination='trx R1')
            roadm = next(n for n in network.nodes() if n.uid == 'roadm R0')
            live = {kk: getattr(roadm, a) for kk, a in zip(POLICY_KEYS, ('target_pch_out_dbm', 'target_psd_out_mWperGHz',
                                                                           'target_out_mWperSlotWidth'))
                    if getattr(roadm, a) is not None}
            if live != {k: v}:
                ctx.violation(f'policy-in-force:{mode}', f'{stage}: expected {{{k}: {v}}}, element has {live}')
            exported = next(e for e in network_to_json(network)['elements'] if e['uid'] == 'roadm R0')['params']
            exp = {kk: exported[kk] for kk in POLICY_KEYS if kk in exported}
            if exp != {k: v}:
                ctx.violation(f'to_json-policy:{mode}', f'{stage}: expected {{{k}: {v}}}, exported {exp}')
        ctx.nontrivial()
    finally:
        netgen.reset_sim_params()


def run_zero(case, ctx):
    run_crossing(case, ctx)
    ctx.nontrivial()


CHECKS = [
    Check('crossing', crossing_case(), run_crossing, quick=1200, thorough=40000,
          doc='egress power per channel, never above input - path loss, reported loss/power, PMD/PDL quadrature, one policy'),
    Check('policy', policy_case(), run_policy, quick=120, thorough=3000,
          doc='two node-level policies rejected by every loader; element policy replaces library default; to_json'),
    Check('zero-target', zero_case(), run_zero, quick=40, thorough=600,
          doc='node-level target_pch_out_db = 0 dBm (legal) through design and crossings'),
    Check('sparse-profile', crossing_case(sparse=True, force_variety='det'), run_crossing, quick=60, thorough=1500,
          doc='impairment profiles omitting roadm-pmd / roadm-pdl as in the documentation example'),
]

FLOORS = {
    'crossing:crossing:express': (0.2, 'crossing'), 'crossing:crossing:add': (0.1, 'crossing'),
    'crossing:crossing:drop': (0.1, 'crossing'), 'crossing:mixed:clipped+equalised': (0.1, 'crossing'),
    'crossing:egress:degree-override:other-kind': (0.05, 'crossing'), 'crossing:impairments:maxloss>0': (0.1, 'crossing'),
    'crossing:egress-policy:target_psd_out_mWperGHz': (0.05, 'crossing'),
    'crossing:egress-policy:target_out_mWperSlotWidth': (0.05, 'crossing'),
}
