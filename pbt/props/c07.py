"""C07 — the launched channel set survives the path intact; channel order is irrelevant (DESIGN §3 C07).

Networks whose links carry different amplifier bands (full C, reduced C, shortened C, C+L multiband, reduced multiband
constituents; pbt/gens/bandnets.py), an arbitrary carrier list placed deliberately on band edges and in band gaps, the real
propagate() under the element recorder. The expected survivors come from own interval arithmetic on the library JSON.
"""
import copy
from hypothesis import strategies as st

from pbt.runner import Check
from pbt.gens import netgen, spectra, bandnets
from pbt.props import _paths

PROPERTY = 'C07'
RULE = ('Generated band edges + library (single-band C / reduced C / short C / L and C+L multiband models), mesh of 2-4 ROADMs '
        'whose link directions carry different band classes, a transceiver pair, and a carrier list (1-50 carriers, mixed '
        'slot/baud/power/label, in the L region, the C region and the gap, starting exactly on band edges in a tagged class, '
        'presented in a generated order) given as initial_spectrum to the real propagate(). Non-trivial = >=1 carrier filtered '
        'and >=1 surviving, or survivors in >=2 bands through a multiband amplifier. distinct = sha1 of the case JSON.')
ASSUMPTIONS = ['amplifier bands are those of the library entry named by each amplifier after design (selection is C10)',
               'comb frequencies/slot widths are integer MHz, so slot edges and band-edge comparisons are exact in floating point']


@st.composite
def band_case(draw, invalid=False, three=False):
    edges = draw(bandnets.band_edges(same_fmax=draw(st.booleans()), third_band=three))
    multiband = True if three else draw(st.booleans())
    classes = ['CLS'] if three else ['CL', 'CL', 'CLred', 'CL', 'W'] if multiband else ['auto', 'C', 'Cred', 'Cred2', 'Cshort', 'Cshort', 'auto']
    topo, truth = draw(bandnets.band_topology(classes, edges, n=(2, 4), extra_max=2))
    src = draw(st.integers(0, truth['n'] - 1))
    dst = draw(st.integers(0, truth['n'] - 2))
    if dst >= src:
        dst += 1
    combs = []
    regions = [('C', edges['C']), ('Cred', edges['Cred']), ('Cshort', edges['Cshort'])]
    if multiband:
        regions += [('L', edges['L']), ('Lred', edges['Lred'])]
    if three:
        regions = [('C', edges['C']), ('L', edges['L']), ('S', edges['S']), ('S', edges['S'])]
    # where the carriers start: exactly on a band edge, just below it, or anywhere
    name, band = draw(st.sampled_from(regions))
    lo_m, hi_m = int(band[0] / 1e6), int(band[1] / 1e6)
    start = draw(st.sampled_from([lo_m, lo_m, lo_m - 1, lo_m + 1, lo_m - 20000, lo_m + 40000, hi_m - 300000, hi_m - 300000,
                                  hi_m - 150000, hi_m - 600000]))
    stop = draw(st.sampled_from([None, hi_m, hi_m, hi_m + 1, hi_m + 100000]))
    comb1 = draw(spectra.comb(1, 40, f_start=(start, start), power=(-3.0, 3.0), f_stop=stop))
    combs.extend(comb1)
    groups_so_far = [comb1]
    for other_name in (['L', 'C', 'S'] if three else ['other']):
        if not (multiband and draw(st.booleans())) or other_name == name:
            continue
        other = edges[other_name] if three else edges['L'] if name.startswith('C') else edges['C']
        lo2 = int(other[0] / 1e6)
        if three:
            groups = [(min(c['f'] - c['slot'] / 2 for c in g) / 1e6, max(c['f'] + c['slot'] / 2 for c in g) / 1e6)
                      for g in groups_so_far]
        else:
            groups = [(min(c['f'] - c['slot'] / 2 for c in combs) / 1e6, max(c['f'] + c['slot'] / 2 for c in combs) / 1e6)]
        s2 = draw(st.sampled_from([lo2, lo2 - 50000, lo2 + 100000]))
        comb2 = draw(spectra.comb(1, 12, f_start=(s2, s2), power=(-3.0, 3.0)))
        # keep the groups apart (no overlap by construction)
        lo_c2 = min(c['f'] - c['slot'] / 2 for c in comb2) / 1e6
        hi_c2 = max(c['f'] + c['slot'] / 2 for c in comb2) / 1e6
        if all(hi_c2 <= bottom or lo_c2 >= top for bottom, top in groups):
            combs.extend(comb2)
            groups_so_far.append(comb2)
    perm = draw(st.permutations(list(range(len(combs)))))
    combs = [combs[i] for i in perm]
    case = {'edges': edges, 'topo': topo, 'truth': truth, 'src': src, 'dst': dst, 'comb': combs,
            'design_reduced': False}
    if invalid:
        case['edit'] = draw(st.sampled_from(['overlap', 'baud']))
        case['edit_index'] = draw(st.integers(0, len(combs) - 1))
    return case


def intersect(a, b):
    out = []
    for lo1, hi1 in a:
        for lo2, hi2 in b:
            lo, hi = max(lo1, lo2), min(hi1, hi2)
            if lo < hi:
                out.append((lo, hi))
    return sorted(out)


def run(case, ctx):
    import numpy as np
    from gnpy.core import elements
    from gnpy.tools.worker_utils import designed_network
    from gnpy.topology.request import compute_constrained_path, propagate
    from gnpy.core.exceptions import SpectrumError
    netgen.reset_sim_params()
    eq_json = bandnets.library(case['edges'], 'C', case['design_reduced'])
    comb = copy.deepcopy(case['comb'])
    invalid = case.get('edit')
    if invalid == 'baud':
        c = comb[case['edit_index']]
        c['baud'] = c['slot'] + 1e6
    elif invalid == 'overlap':
        c = comb[case['edit_index']]
        others = sorted((o for o in comb if o is not c), key=lambda o: o['f'])
        if others:
            o = others[0]
            c['f'] = o['f'] + (o['slot'] + c['slot']) / 2 - 2e6       # 2 MHz into the neighbour's slot
        else:
            comb.append(dict(c, f=c['f'] + c['slot'] - 2e6))
    try:
        equipment, network = netgen.build_network(eq_json, case['topo'])
        network, req, ref = designed_network(equipment, network, source=f"trx R{case['src']}",
                                             destination=f"trx R{case['dst']}",
                                             initial_spectrum=spectra.comb_to_carriers(comb))
    except Exception as e:  # noqa C08/C15
        ctx.label('skipped:design-failed:' + type(e).__name__)
        return
    path = compute_constrained_path(network, req)
    if not path:
        ctx.label('skipped:no-path')
        return
    if invalid:
        try:
            propagate(copy.deepcopy(path), req, equipment)
        except SpectrumError:
            ctx.label('invalid:rejected:' + invalid)
            ctx.nontrivial(True)
            return
        except ValueError:
            # nothing in band is reported before the spectrum is built? no: the spectrum is built first
            ctx.violation('invalid-spectrum-not-rejected', f'{invalid}: ValueError instead of SpectrumError')
            return
        ctx.violation('invalid-spectrum-not-rejected', f'{invalid} at index {case["edit_index"]} propagated without error')
        return
    # ---- expected survivors: own interval arithmetic
    bands_of = bandnets.entry_bands(eq_json['Edfa'])
    si = eq_json['SI'][0]
    common = None
    multi = False
    for el in path:
        if isinstance(el, elements.Edfa):
            b = bands_of.get(el.params.type_variety)
        elif isinstance(el, elements.Multiband_amplifier):
            b = bands_of.get(el.params.type_variety)
            multi = True
        else:
            continue
        if b is None:
            ctx.label('skipped:amplifier-without-library-variety')
            return
        common = sorted(b) if common is None else intersect(common, sorted(b))
    if common is None:
        common = [(si['f_min'], si['f_max'])]
    meta = {c['f']: c for c in comb}

    def inside(c):
        return any(lo <= c['f'] - c['slot'] / 2 and c['f'] + c['slot'] / 2 <= hi for lo, hi in common)
    expected = sorted(c['f'] for c in comb if inside(c))
    run1 = copy.deepcopy(path)
    with _paths.Recorder() as rec:
        try:
            propagate(run1, req, equipment)
            err = None
        except ValueError as e:
            err = e
    if not expected:
        ctx.label('outcome:nothing-in-band')
        if err is None:
            ctx.violation('no-carrier-in-band-but-propagated', f'common range {common}')
        ctx.nontrivial(len(comb) >= 2)
        return
    if err is not None:
        ctx.violation('carriers-in-band-but-rejected', f'{err}; expected {len(expected)} survivors in {common}')
        return
    for r in rec.top():
        for stage in ('before', 'after'):
            snap = r[stage]
            if snap['f'] != expected:
                lost = sorted(set(expected) - set(snap['f']))
                extra = sorted(set(snap['f']) - set(expected))
                dup = len(snap['f']) != len(set(snap['f']))
                ctx.violation('channel-set-changed' + (':duplicated' if dup else ':lost' if lost else ':extra' if extra else ':order'),
                              f'{r["kind"]} {r["uid"]} {stage}: lost {lost[:3]} extra {extra[:3]} (common range {common})')
                return
            for i, f in enumerate(snap['f']):
                c = meta[f]
                got = (snap['baud'][i], snap['slot'][i], snap['roll'][i], snap['label'][i], snap['dp'][i], snap['tx_osnr'][i])
                want = (c['baud'], c['slot'], c['roll'], c['label'], c['dp'], c['tx_osnr'])
                if got != want:
                    ctx.violation('channel-data-misplaced', f'{r["kind"]} {r["uid"]} {stage}: ch {f}: {got} vs {want}')
                    return
                if abs(snap['tx_power'][i] - 10 ** (c['p_dbm'] / 10) * 1e-3) > 1e-12 * snap['tx_power'][i]:
                    ctx.violation('channel-data-misplaced', f'{r["kind"]} {r["uid"]} {stage}: ch {f}: tx_power')
                    return
    # ---- order of presentation is irrelevant: bit-identical receiver arrays
    req2 = copy.deepcopy(req)
    req2.initial_spectrum = spectra.comb_to_carriers(sorted(comb, key=lambda c: c['f']))
    run2 = copy.deepcopy(path)
    propagate(run2, req2, equipment)
    a, b = run1[-1], run2[-1]
    for name in ('snr_01nm', 'snr', 'osnr_ase_01nm', 'osnr_ase', 'osnr_nli', 'chromatic_dispersion', 'pmd', 'pdl', 'latency'):
        x, y = np.asarray(getattr(a, name)), np.asarray(getattr(b, name))
        if x.shape != y.shape or not np.array_equal(x, y):
            ctx.violation('result-depends-on-carrier-order', f'{name}: {x[:3]} vs {y[:3]}')
            return
    # ---- history: a second, smaller spectrum through the very objects used above gives what fresh copies give
    def gains(p):
        out = []
        for e in p:
            subs = list(e.amplifiers.values()) if isinstance(e, elements.Multiband_amplifier) else \
                [e] if isinstance(e, elements.Edfa) else []
            out += [float(x.effective_gain) for x in subs]
        return out
    band_of = {f: next(i for i, (lo, hi) in enumerate(common) if lo <= f <= hi) for f in expected}
    keep_band = band_of[expected[0]]
    sub = [c for c in comb if c['f'] in band_of and (band_of[c['f']] == keep_band if len(set(band_of.values())) > 1
                                                    else expected.index(c['f']) % 2 == 0)]
    if gains(run1) != gains(path):
        ctx.label('history:not-judged-amplifier-saturated-in-first-propagation')    # known: the object keeps the clamped gain
    elif sub and len(sub) < len(expected):
        req3 = copy.deepcopy(req)
        req3.initial_spectrum = spectra.comb_to_carriers(sub)
        fresh = copy.deepcopy(path)
        propagate(run1, req3, equipment)
        propagate(fresh, req3, equipment)
        ctx.label('history:second-spectrum-on-used-objects')
        for name in ('snr_01nm', 'osnr_ase_01nm', 'osnr_nli', 'chromatic_dispersion', 'pmd', 'pdl'):
            x, y = np.asarray(getattr(run1[-1], name)), np.asarray(getattr(fresh[-1], name))
            if x.shape != y.shape or not np.array_equal(x, y):
                ctx.violation('result-depends-on-an-earlier-propagation-through-the-same-objects',
                              f'{name}: used objects {x[:3]} ({x.shape}), fresh copies {y[:3]} ({y.shape})')
                return
    nbands = len({next(i for i, (lo, hi) in enumerate(common) if lo <= f <= hi) for f in expected})
    filtered = len(comb) - len(expected)
    ctx.label('filtered:some' if filtered else 'filtered:none', f'bands:{nbands}', 'multiband-path' if multi else 'single-band-path')
    if any(abs((c['f'] - c['slot'] / 2) - lo) < 1.5e6 or abs((c['f'] + c['slot'] / 2) - hi) < 1.5e6
           for c in comb for lo, hi in common):
        ctx.label('carrier-on-band-edge')
    ctx.nontrivial((filtered >= 1 and len(expected) >= 1) or (multi and nbands >= 2))


CHECKS = [
    Check('survival', band_case(), run, quick=3000, thorough=60000, doc='channel set after pre-filter and after every element'),
    Check('three-band', band_case(three=True), run, quick=150, thorough=5000,
          doc='lines of three-band amplifiers (C, L and a third band, constituents listed in any order)'),
    Check('invalid-spectrum', band_case(invalid=True), run, quick=200, thorough=5000,
          doc='overlapping carriers or baud rate wider than the slot are rejected with SpectrumError'),
]
