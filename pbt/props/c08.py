"""C08 — auto-design turns any well-formed topology into a complete line system (DESIGN §3 C08).

Oracle = validity predicate on the designed graph, computed from the generated JSON (ground truth) and the
equipment JSON with own arithmetic; nothing is compared with stored expectations.
"""
import copy
import math
import re
from hypothesis import strategies as st

from pbt.runner import Check
from pbt.gens import netgen, bandnets

PROPERTY = 'C08'
RULE = ('Hypothesis-generated equipment library (2-6 amplifier models of all NF kinds, Span with padding 0-15 dB, '
        'max_length 80-200 km, EOL, connectors, power/gain mode) and mesh topology (2-5 ROADMs, 1-3 spans per direction, '
        'fibres from 5 m to 400 km incl. per-frequency loss and lumped losses, fused junctions, user amplifiers with '
        'full/partial/no settings or variety lists, RamanFiber spans in a sub-check) run through the real '
        'designed_network(); the designed graph is judged by a validity predicate. A third sub-check uses networks mixing '
        'single-band and C+L multiband amplifiers. Non-trivial = design performed >=1 fibre split and >=1 amplifier insertion '
        'and >=1 padding, or consumed a partially-set user amplifier, or inserted amplifiers in a multiband network. '
        'distinct = sha1 of the case JSON.')
ASSUMPTIONS = ['amplifier bands have their centre inside the band definitions of gnpy.core.parameters (L: 187-189 THz, C: 191.3-196 THz)',
               'well-formed = what pbt/gens/netgen.py builds: one-in/one-out chains with >=1 fibre between ROADMs, library '
               'varieties exist, restriction lists name band-covering non-Raman amplifiers, RamanFiber has numeric connectors',
               'span padding is judged for amplifier-terminated chains that start and end with a (non-Raman) fibre']


@st.composite
def design_case(draw, raman=False, long_fibres=True):
    eq = draw(netgen.equipment(raman_fiber=raman))
    fiber_kw = {}
    chain_kw = {'raman': raman, 'fiber_kw': fiber_kw}
    topo, truth = draw(netgen.topology(eq, n=(2, 4), extra_max=2, chain_kw=chain_kw))
    if long_fibres:
        # stretch some fibres beyond max_length so that splits happen (positions of lumped losses scaled with it)
        fibres = [e for e in topo['elements'] if e['type'] == 'Fiber']
        for f in fibres:
            if draw(st.integers(0, 5)) == 0:
                k = draw(st.sampled_from([2.0, 3.0, 4.5, 1.6]))
                p = f['params']
                if p['length'] * k <= 1500:
                    p['length'] = round(p['length'] * k, 3)
                    for ll in p.get('lumped_losses', []):
                        ll['position'] = round(ll['position'] * k, 3)
    return {'eq': eq, 'topo': topo, 'truth': truth,
            'raman_flag': bool(raman and draw(st.booleans()))}


@st.composite
def multiband_case(draw):
    """networks whose links carry different band classes incl. C+L Multiband_amplifier (typed, untyped, reduced)"""
    edges = draw(bandnets.band_edges(same_fmax=draw(st.booleans())))
    # gnpy names the band of an amplifier after the centre of its range (L band: centre within 187-189 THz, C band:
    # 191.3-196 THz); a reduced L model starting at 188 THz has its centre outside and cannot be indexed at all
    if (edges['Lred'][0] + edges['Lred'][1]) / 2 > 189e12:
        edges['Lred'][0] = 187.3e12
    classes = draw(st.sampled_from([['CL', 'CLred', 'CLauto'], ['auto', 'C', 'Cred', 'CL'], ['CL'], ['CLauto', 'CL'],
                                    ['auto', 'Cshort', 'Cred2', 'C']]))
    topo, truth = draw(bandnets.band_topology(classes, edges, n=(2, 4), extra_max=2))
    eq = bandnets.library(edges, 'C', draw(st.booleans()))
    return {'eq': eq, 'topo': topo, 'truth': {'n': truth['n'], 'links': truth['links']}}


def _chains(network, elements):
    """walk from every ROADM egress until the next ROADM: returns list of (src roadm uid, dst roadm uid, [nodes]) and
    problems found while walking"""
    problems = []
    out = []
    for r in [n for n in network.nodes() if isinstance(n, elements.Roadm)]:
        for first in network.successors(r):
            if isinstance(first, elements.Transceiver):
                continue
            chain, node, seen = [], first, set()
            while not isinstance(node, (elements.Roadm, elements.Transceiver)):
                if node.uid in seen:
                    problems.append(('loop', node.uid))
                    break
                seen.add(node.uid)
                chain.append(node)
                succ = list(network.successors(node))
                pred = list(network.predecessors(node))
                if len(succ) != 1 or len(pred) != 1:
                    problems.append(('degree', f'{node.uid}: in={len(pred)} out={len(succ)}'))
                    break
                node = succ[0]
            else:
                out.append((r.uid, node.uid, chain))
    return out, problems


def run_design(case, ctx):
    from gnpy.core import elements
    from gnpy.tools.worker_utils import designed_network
    from gnpy.core.parameters import SimParams
    eqj, topo, truth = case['eq'], case['topo'], case['truth']
    span = eqj['Span'][0]
    netgen.reset_sim_params({'raman_params': {'flag': True, 'result_spatial_resolution': 10e3,
                                              'solver_spatial_resolution': 10e3}} if case.get('raman_flag') else None)
    try:
        equipment, network = netgen.build_network(eqj, topo)
        # --- ground truth before design
        before_nodes = {n.uid: n for n in network.nodes()}
        orig_fibres = {e['uid']: e for e in topo['elements'] if e['type'] in ('Fiber', 'RamanFiber')}
        feats = set()
        for e in topo['elements']:
            if e['type'] == 'Fiber' and 'lumped_losses' in e['params']:
                feats.add('lumped')
            if e['type'] == 'Fiber' and isinstance(e['params']['loss_coef'], dict):
                feats.add('perfreq')
            if e['type'] == 'RamanFiber':
                feats.add('raman')
            if e['type'] == 'Fused':
                feats.add('fused')
        max_len = span['max_length'] * 1e3
        long_f = [u for u, e in orig_fibres.items() if e['params']['length'] * 1e3 >= max_len]
        feats.update(['long-fibre'] if long_f else [])
        for u in long_f:
            e = orig_fibres[u]
            if 'lumped_losses' in e['params']:
                feats.add('long+lumped')
            if isinstance(e['params']['loss_coef'], dict):
                feats.add('long+perfreq')
            if e['type'] == 'RamanFiber':
                feats.add('long+raman')
        sig_feat = '+'.join(sorted(f for f in feats if f.startswith('long+'))) or \
            ('raman' if 'raman' in feats else 'plain')
        try:
            designed_network(equipment, network)
        except Exception as exc:  # any exception on a well-formed topology is a violation
            from pbt.runner import classify_exception
            where, sig = classify_exception(exc)
            if where == 'harness':
                raise
            # feature tag makes the signature specific to the input shape (known findings are matched on it)
            ctx.violation(f'design-raised:{sig}:{sig_feat}', f'{type(exc).__name__}: {str(exc)[:300]}')
            for f in sorted(feats):
                ctx.label('feat:' + f)
            return

        power_mode = span['power_mode']
        lib = set(equipment['Edfa'])
        uids = [n.uid for n in network.nodes()]
        if len(uids) != len(set(uids)):
            ctx.violation('duplicate-uid', str(sorted(u for u in uids if uids.count(u) > 1)[:4]))
        inserted = padded = 0
        # --- 1. amplifiers complete
        for n in network.nodes():
            amps = []
            if isinstance(n, elements.Edfa):
                amps = [n]
            elif isinstance(n, elements.Multiband_amplifier):
                amps = list(n.amplifiers.values())
                if not amps:
                    ctx.violation('multiband-without-amplifiers', n.uid)
            for a in amps:
                tv = a.params.type_variety
                if not tv or tv not in lib:
                    ctx.violation('amplifier-without-library-model', f'{n.uid}: type_variety={tv!r}')
                    continue
                if not isinstance(a.effective_gain, (int, float)) or not math.isfinite(a.effective_gain):
                    ctx.violation('amplifier-without-gain', f'{n.uid}: {a.effective_gain!r}')
                if a.out_voa is None or not math.isfinite(a.out_voa):
                    ctx.violation('amplifier-without-out-voa', f'{n.uid}: {a.out_voa!r}')
                if power_mode:
                    if a.delta_p is None or not math.isfinite(a.delta_p):
                        ctx.violation('amplifier-without-delta-p', f'{n.uid}: {a.delta_p!r}')
                    if a.target_pch_out_dbm is None:
                        ctx.violation('amplifier-without-power-target', n.uid)
            if isinstance(n, (elements.Edfa, elements.Multiband_amplifier)) and n.uid not in before_nodes:
                inserted += 1
        # --- 2. fibres have connectors
        for n in network.nodes():
            if isinstance(n, elements.Fiber):
                for k in ('con_in', 'con_out'):
                    v = getattr(n.params, k)
                    if v is None or not math.isfinite(v):
                        ctx.violation('fibre-without-connector-loss', f'{n.uid}: {k}={v!r}')
        # --- 5. no unamplified junction, one-in/one-out chains
        for a, b in network.edges():
            fa, fb = isinstance(a, elements.Fiber), isinstance(b, elements.Fiber)
            if fa and fb:
                ctx.violation('fibre-to-fibre-junction-left', f'{a.uid} -> {b.uid}')
            if isinstance(a, elements.Roadm) and fb:
                ctx.violation('roadm-to-fibre-junction-left', f'{a.uid} -> {b.uid}')
            if fa and isinstance(b, elements.Roadm):
                ctx.violation('fibre-to-roadm-junction-left', f'{a.uid} -> {b.uid}')
        chains, problems = _chains(network, elements)
        for kind, what in problems:
            ctx.violation(f'chain-broken:{kind}', what)
        if ctx.violations:
            return
        # --- 6. reachability unchanged: ROADM-level multigraph
        want = sorted([f'roadm R{a}', f'roadm R{b}'] for a, b in truth['links']) + \
            sorted([f'roadm R{b}', f'roadm R{a}'] for a, b in truth['links'])
        got = sorted([s, d] for s, d, _ in chains)
        if sorted(want) != got:
            ctx.violation('roadm-level-graph-changed', f'want {sorted(want)[:6]} got {got[:6]}')
        for i in range(truth['n']):
            t, r = f'trx R{i}', f'roadm R{i}'
            nodes = {n.uid: n for n in network.nodes()}
            if not (network.has_edge(nodes[t], nodes[r]) and network.has_edge(nodes[r], nodes[t])):
                ctx.violation('transceiver-detached', t)
        # every chain must carry exactly the elements of one generated link direction, in order
        for s, d, chain in chains:
            ids = {netgen.link_of(n.uid) for n in chain}
            if len(ids) != 1 or None in ids:
                ctx.violation('chain-mixes-links', f'{s}->{d}: {[n.uid for n in chain][:8]}')
        # --- 4. splits
        after_fibres = {}
        for n in network.nodes():
            if isinstance(n, elements.Fiber):
                m = re.fullmatch(r'(.*)_\((\d+)/(\d+)\)', n.uid)
                base = m.group(1) if m and m.group(1) in orig_fibres else n.uid
                after_fibres.setdefault(base, []).append((n, m))
        nsplit = 0
        for uid, e in orig_fibres.items():
            L = e['params']['length'] * 1e3
            pieces = after_fibres.get(uid)
            if not pieces:
                ctx.violation('fibre-disappeared', uid)
                continue
            lc = e['params']['loss_coef']
            lumped_total = sum(ll['loss'] for ll in e['params'].get('lumped_losses', []))
            if L < max_len * (1 - 1e-9):
                if len(pieces) != 1 or pieces[0][1] is not None:
                    ctx.violation('short-fibre-was-split', f'{uid}: L={L} max={max_len} -> {[p[0].uid for p in pieces]}')
                    continue
            elif L > max_len * (1 + 1e-9):
                if len(pieces) < 2 or any(p[1] is None for p in pieces):
                    ctx.violation('long-fibre-not-split', f'{uid}: L={L} max={max_len} -> {[p[0].uid for p in pieces]}')
                    continue
                nsplit += 1
                n = len(pieces)
                ks = sorted(int(p[1].group(2)) for p in pieces)
                if ks != list(range(1, n + 1)) or any(int(p[1].group(3)) != n for p in pieces):
                    ctx.violation('split-naming', f'{uid}: {[p[0].uid for p in pieces]}')
                lens = [p[0].params.length for p in pieces]
                if max(lens) - min(lens) > 1e-6 * L:
                    ctx.violation('split-unequal-spans', f'{uid}: {lens}')
                if abs(sum(lens) - L) > 1e-6 * L:
                    ctx.violation('split-length-not-conserved', f'{uid}: {sum(lens)} vs {L}')
                if max(lens) > max_len * (1 + 1e-9):
                    ctx.violation('split-span-still-too-long', f'{uid}: {max(lens)} > {max_len}')
                if type(pieces[0][0]).__name__ != e['type']:
                    ctx.violation('split-changed-fibre-type', f'{uid}: {e["type"]} -> {type(pieces[0][0]).__name__}')
                # the spans are pieces of the same fibre: what scales with length scales with each piece's own length
                # (latency = L n / c with the group index 1.468 of FiberParams, PMD = pmd_coef sqrt(L))
                for p, _ in pieces:
                    want_lat = p.params.length * 1.468 / 299792458.0
                    if abs(p.params.latency - want_lat) > 1e-9 * want_lat:
                        ctx.violation('split-span-keeps-a-length-dependent-value-of-the-whole-fibre',
                                      f'{p.uid}: latency {p.params.latency!r} for {p.params.length} m (expected {want_lat!r})')
                        break
                    want_pmd = p.params.pmd_coef * p.params.length ** 0.5
                    if abs(p.pmd - want_pmd) > 1e-9 * max(want_pmd, 1e-30):
                        ctx.violation('split-span-keeps-a-length-dependent-value-of-the-whole-fibre',
                                      f'{p.uid}: pmd {p.pmd!r} for {p.params.length} m (expected {want_pmd!r})')
                        break
            else:
                continue  # exactly at the limit: not judged
            # intrinsic loss (alpha*L + lumped; connectors are per span and excluded) conserved
            f_ref = pieces[0][0].params.ref_frequency
            got_loss = 0.0
            for p, _ in pieces:
                alpha = float(p.loss_coef_func(f_ref))  # dB/m at the reference frequency, as exported by gnpy
                got_loss += alpha * p.params.length + sum(ll['loss'] for ll in p.params.lumped_losses)
            if isinstance(lc, dict):
                # linear interpolation of the user's table at the reference frequency
                fr, va = lc['frequency'], lc['value']
                j = max(i for i in range(len(fr) - 1) if fr[i] <= f_ref)
                a_ref = va[j] + (va[j + 1] - va[j]) * (f_ref - fr[j]) / (fr[j + 1] - fr[j])
            else:
                a_ref = lc
            want_loss = a_ref * 1e-3 * L + lumped_total
            if abs(got_loss - want_loss) > 1e-6 * max(1.0, want_loss):
                ctx.violation('fibre-loss-not-conserved', f'{uid}: pieces {got_loss:.6f} dB vs original {want_loss:.6f} dB')
        # --- 3. padding
        padding = span['padding']
        amp_t = (elements.Edfa, elements.Multiband_amplifier)
        for s, d, chain in chains:
            i = 0
            while i < len(chain):
                if isinstance(chain[i], (elements.Fiber, elements.Fused)):
                    j = i
                    while j < len(chain) and isinstance(chain[j], (elements.Fiber, elements.Fused)):
                        j += 1
                    seg = chain[i:j]
                    nxt = chain[j] if j < len(chain) else None
                    if isinstance(nxt, amp_t) and isinstance(seg[0], elements.Fiber) and \
                            isinstance(seg[-1], elements.Fiber) and \
                            not any(isinstance(x, elements.RamanFiber) for x in seg):
                        loss = sum(float(x.loss) for x in seg)
                        if loss < padding - 1e-9:
                            ctx.violation('span-below-padding', f'{[x.uid for x in seg]}: {loss:.4f} dB < {padding}')
                        if any(x.params.att_in > (before_att(topo, x.uid) + 1e-12) for x in seg if isinstance(x, elements.Fiber)):
                            padded += 1
                    i = j
                else:
                    i += 1
        partial = any(e['type'] == 'Edfa' and e.get('type_variety') and
                      sum(v is not None and v != 0 for v in e['operational'].values()) in (1, 2)
                      for e in topo['elements'])
        for f in sorted(feats):
            ctx.label('feat:' + f)
        ctx.label('power_mode' if power_mode else 'gain_mode')
        if nsplit:
            ctx.label('did:split')
        if inserted:
            ctx.label('did:insert')
        if padded:
            ctx.label('did:pad')
        if partial:
            ctx.label('did:partial-user-amp')
        multiband = any(isinstance(n, elements.Multiband_amplifier) for n in network.nodes())
        if multiband:
            ctx.label('feat:multiband')
        ctx.nontrivial((nsplit >= 1 and inserted >= 1 and padded >= 1) or (partial and inserted >= 1)
                       or (multiband and inserted >= 1))
    finally:
        netgen.reset_sim_params()


def before_att(topo, uid):
    base = re.sub(r'_\(\d+/\d+\)$', '', uid)
    for e in topo['elements']:
        if e['uid'] == base:
            return e['params'].get('att_in', 0) or 0
    return 0


CHECKS = [
    Check('design', design_case(), run_design, quick=500, thorough=16000,
          doc='validity predicate on designed generated meshes'),
    Check('design-raman', design_case(raman=True, long_fibres=False), run_design, quick=60, thorough=1500,
          doc='same with RamanFiber spans (Raman flag on/off)'),
    Check('design-multiband', multiband_case(), run_design, quick=200, thorough=6000,
          doc='same on networks mixing single-band and C+L multiband amplifiers'),
]
