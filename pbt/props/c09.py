"""C09 — designed gains close the power budget and follow the documented power rule (DESIGN §3 C09).

Three oracles on the designed network (single-band OMS without Raman spans; Raman flag off so that SRS tilt
estimates are zero):
  (1) consistency along every OMS: gain = loss since previous amplifier + change of target (+ input VOA)
  (2) the documented rule for every amplifier whose offset/gain the operator left open; operator values are kept;
      any reduction is justified by the maximum output power (or, for auto-selected models, the gain range)
  (3) propagating the design comb reproduces P_ref + delta_p - out_voa at every amplifier output and the egress
      target at every ROADM output, up to accumulated noise.
"""
import math
from hypothesis import strategies as st

from pbt.runner import Check
from pbt.gens import netgen
from pbt.props import _paths

PROPERTY = 'C09'
RULE = ('Generated equipment library (any amplifier model, power or gain mode, delta_power_range / slope / reference / '
        'padding / EOL / VOA settings, three ROADM equalisation kinds incl. per-degree overrides) + generated mesh '
        '(user amplifiers with full/partial/no settings, fused junctions, fibres incl. lumped and per-frequency loss, '
        'long fibres that get split) designed by designed_network(); then one transceiver pair is propagated with the '
        'design comb. Non-trivial = an OMS with >=2 amplifiers and distinct span losses, or a justified power reduction, '
        'or a user/auto output VOA. distinct = sha1 of the case JSON.')
ASSUMPTIONS = ['delta_power_range step is a multiple of 0.1 dB (round2float documents a 0.1 dB resolution)',
               'OMS containing RamanFiber or multiband amplifiers are not judged here',
               'clause 3 is judged downstream of a ROADM only when that ROADM could reach its egress target']

EPS = 1e-6


@st.composite
def design_case(draw):
    eq = draw(netgen.equipment())
    topo, truth = draw(netgen.topology(eq, n=(2, 4), extra_max=2))
    fibres = [e for e in topo['elements'] if e['type'] == 'Fiber']
    for f in fibres:
        if draw(st.integers(0, 7)) == 0:
            k = draw(st.sampled_from([2.0, 3.0]))
            p = f['params']
            p['length'] = round(p['length'] * k, 3)
            for ll in p.get('lumped_losses', []):
                ll['position'] = round(ll['position'] * k, 3)
    src = draw(st.integers(0, truth['n'] - 1))
    dst = draw(st.integers(0, truth['n'] - 2))
    if dst >= src:
        dst += 1
    return {'eq': eq, 'topo': topo, 'truth': truth, 'src': src, 'dst': dst}


def roadm_policy(eq_json, el_json):
    """(kind, value) node-level policy of a ROADM element as documented: element setting else library entry"""
    kinds = ('target_pch_out_db', 'target_psd_out_mWperGHz', 'target_out_mWperSlotWidth')
    params = el_json.get('params', {})
    for k in kinds:
        if k in params:
            return k, params[k]
    variety = el_json.get('type_variety', 'default')
    for r in eq_json['Roadm']:
        if r.get('type_variety', 'default') == variety:
            for k in kinds:
                if k in r:
                    return k, r[k]
    raise KeyError(variety)


def target_dbm(kind, value, baud, slot):
    if kind in ('target_pch_out_db', 'per_degree_pch_out_db'):
        return float(value)
    if kind in ('target_psd_out_mWperGHz', 'per_degree_psd_out_mWperGHz'):
        return 10 * math.log10(value * baud * 1e-9)
    return 10 * math.log10(value * slot * 1e-9)


def degree_target(eq_json, el_json, degree_uid, baud, slot):
    params = el_json.get('params', {})
    for k in ('per_degree_pch_out_db', 'per_degree_psd_out_mWperGHz', 'per_degree_psd_out_mWperSlotWidth'):
        if degree_uid in params.get(k, {}):
            return target_dbm(k, params[k][degree_uid], baud, slot)
    k, v = roadm_policy(eq_json, el_json)
    return target_dbm(k, v, baud, slot)


def passive_loss(node, elements):
    """own span-loss arithmetic on the designed element (C08 owns how connectors/padding get there)"""
    if isinstance(node, elements.Fused):
        return float(node.params.loss)
    p = node.params
    f_ref = p.ref_frequency
    alpha = float(node.loss_coef_func(f_ref))
    lumped = sum(ll['loss'] for ll in p.lumped_losses)
    return alpha * p.length + p.con_in + p.con_out + p.att_in + lumped


def on_grid(x, step):
    if step <= 0:
        return True
    q = x / step
    return abs(q - round(q)) <= 1e-6


def run(case, ctx):
    from gnpy.core import elements
    from gnpy.tools.worker_utils import designed_network
    from gnpy.topology.request import compute_constrained_path, propagate
    eqj, topo, truth = case['eq'], case['topo'], case['truth']
    span, si = eqj['Span'][0], eqj['SI'][0]
    power_mode = span['power_mode']
    netgen.reset_sim_params()
    try:
        try:
            equipment, network = netgen.build_network(eqj, topo)
            network, req, ref_req = designed_network(equipment, network, source=f"trx R{case['src']}",
                                                     destination=f"trx R{case['dst']}")
        except Exception as e:  # noqa: owned by C08
            ctx.label('skipped:design-failed:' + type(e).__name__)
            return
        el_json = {e['uid']: e for e in topo['elements']}
        lib = {e['type_variety']: e for e in eqj['Edfa']}
        pref = float(si['power_dbm'])
        nch = int((si['f_max'] - si['f_min']) // si['spacing'])
        pref_total = pref + 10 * math.log10(nch)
        lo, hi, step = span['delta_power_range_db']
        slope, ref_loss, ext = span['power_slope'], span['span_loss_ref'], span['target_extended_gain']
        nodes = {n.uid: n for n in network.nodes()}
        amp_t = (elements.Edfa,)
        interesting = False
        expected_out = {}     # amp uid -> expected per-channel power after the amplifier and its VOA
        roadm_target = {}     # (roadm uid, degree uid) -> egress target for the reference channel
        for r in [n for n in network.nodes() if isinstance(n, elements.Roadm)]:
            for first in network.successors(r):
                if isinstance(first, elements.Transceiver):
                    continue
                chain, node = [], first
                while not isinstance(node, (elements.Roadm, elements.Transceiver)):
                    chain.append(node)
                    node = next(network.successors(node))
                tgt = degree_target(eqj, el_json[r.uid], first.uid, si['baud_rate'], si['spacing'])
                roadm_target[(r.uid, first.uid)] = tgt
                if any(isinstance(x, (elements.RamanFiber, elements.Multiband_amplifier)) for x in chain):
                    ctx.label('oms:not-judged-raman-or-multiband')
                    continue
                net_prev = tgt - pref          # power offset of the reference channel after the previous active element
                loss = 0.0
                span_losses = []
                namp = 0
                for i, x in enumerate(chain):
                    if not isinstance(x, amp_t):
                        loss += passive_loss(x, elements)
                        continue
                    namp += 1
                    span_losses.append(round(loss, 6))
                    user = el_json.get(x.uid, {}).get('operational', {}) if x.uid in el_json else {}
                    user_variety = el_json.get(x.uid, {}).get('type_variety') if x.uid in el_json else ''
                    u_gain, u_dp = user.get('gain_target'), user.get('delta_p')
                    u_voa, u_invoa = user.get('out_voa'), user.get('in_voa') or 0
                    model = lib.get(x.params.type_variety)
                    if model is None:
                        ctx.label('amp:not-in-library')   # C08
                        break
                    p_max = equipment['Edfa'][x.params.type_variety].p_max
                    gmax = equipment['Edfa'][x.params.type_variety].gain_flatmax
                    gain = x.effective_gain
                    dp = x._delta_p
                    if dp is None or gain is None or x.out_voa is None:
                        ctx.violation('amplifier-not-designed', x.uid)
                        break
                    if power_mode and (x.delta_p is None or abs(x.delta_p - dp) > EPS):
                        ctx.violation('delta-p-not-recorded', f'{x.uid}: delta_p={x.delta_p} designed={dp}')
                    in_voa = x.in_voa or 0
                    # (1) consistency
                    want_gain = loss + dp - net_prev + in_voa
                    if abs(gain - want_gain) > EPS:
                        ctx.violation('gain-does-not-close-budget',
                                      f'{x.uid}: gain={gain:.6f} but loss {loss:.6f} + dp {dp:.6f} - previous offset '
                                      f'{net_prev:.6f} + in_voa {in_voa} = {want_gain:.6f}')
                    # total design power never above p_max
                    if pref_total + dp > p_max + EPS:
                        ctx.violation('design-power-above-pmax', f'{x.uid}: {pref_total + dp:.4f} dBm > p_max {p_max}')
                    # (2) rule
                    auto_voa = (u_voa is None and power_mode and bool(model.get('out_voa_auto')))
                    voa_added = x.out_voa if auto_voa else 0.0
                    if not auto_voa and abs(x.out_voa - (u_voa or 0)) > EPS:
                        ctx.violation('output-voa-not-kept', f'{x.uid}: user {u_voa} designed {x.out_voa}')
                    base_dp = dp - voa_added          # offset before the automatic VOA optimisation
                    base_gain = gain - voa_added
                    nxt = [y for y in chain[i + 1:]]
                    next_loss = 0.0
                    before_roadm = True
                    for y in nxt:
                        if isinstance(y, amp_t):
                            break
                        before_roadm = False
                        next_loss += passive_loss(y, elements)
                    next_is_amp = bool(nxt) and isinstance(nxt[0], amp_t)
                    auto_selected = not user_variety
                    at_pmax = abs(pref_total + base_dp - p_max) <= 1e-5
                    at_gmax = abs(base_gain - (gmax + ext)) <= 1e-5
                    sat_justified = at_pmax or (auto_selected and at_gmax)
                    # recorded finding: in gain mode the saturation test ignores the input VOA and reduces in_voa too much
                    invoa_shape = (not power_mode) and in_voa > 0 and abs(pref_total + base_dp + in_voa - p_max) <= 1e-5
                    suffix = ':gain-mode-in-voa' if invoa_shape else ''
                    if next_is_amp:
                        ctx.label('amp:followed-by-amp-not-judged')
                    elif power_mode or u_gain is None:
                        if u_dp is not None:
                            # operator-set offset is kept unless it would saturate
                            if abs(base_dp - u_dp) > EPS:
                                if base_dp < u_dp and sat_justified:
                                    interesting = True
                                    ctx.label('rule:user-dp-reduced')
                                else:
                                    ctx.violation('operator-delta-p-not-kept' + suffix, f'{x.uid}: user {u_dp} designed {base_dp:.6f} '
                                                                               f'total {pref_total + base_dp:.4f} p_max {p_max}')
                        else:
                            xval = 0.0 if before_roadm else slope * (next_loss - ref_loss)
                            rule = base_dp - (u_voa or 0)
                            # every value the documented rule allows: round xval to the step (either neighbour when
                            # within half a step + 1e-6, so exact ties are not judged), then clamp to the range
                            if before_roadm:
                                allowed = [0.0]
                            elif step > 0:
                                g0 = math.floor(xval / step) * step
                                allowed = [min(max(g, lo), hi) for g in (g0, g0 + step) if abs(g - xval) <= step / 2 + 1e-6]
                            else:
                                allowed = [min(max(round(xval, 2), lo), hi)]
                            ok = any(abs(rule - a) <= 1e-6 for a in allowed)
                            if not ok:
                                # a reduction must be justified by saturation
                                if rule < max(allowed) and sat_justified:
                                    interesting = True
                                    ctx.label('rule:reduced-by-saturation')
                                else:
                                    ctx.violation('power-rule-not-followed' + suffix,
                                                  f'{x.uid}: offset {rule:.4f} for next span loss {next_loss:.4f} dB '
                                                  f'(slope {slope}, ref {ref_loss}, range {lo}..{hi} step {step}, '
                                                  f'before_roadm={before_roadm}); total {pref_total + base_dp:.3f} p_max {p_max} '
                                                  f'gain {base_gain:.3f} gmax+ext {gmax + ext}')
                            else:
                                ctx.label('rule:followed')
                    else:
                        # gain mode with operator gain: kept unless saturating
                        if abs(base_gain - u_gain) > EPS:
                            if base_gain < u_gain and sat_justified:
                                interesting = True
                                ctx.label('rule:user-gain-reduced')
                            else:
                                ctx.violation('operator-gain-not-kept' + suffix, f'{x.uid}: user {u_gain} designed {base_gain:.6f}')
                    if x.out_voa:
                        interesting = True
                    expected_out[x.uid] = pref + dp - x.out_voa
                    net_prev = dp - x.out_voa
                    loss = 0.0
                if namp >= 2 and len(set(span_losses)) >= 2:
                    interesting = True
        if ctx.violations:
            return
        # (3) propagate the design comb
        path = compute_constrained_path(network, req)
        if not path:
            ctx.label('skipped:no-path')
            return
        if any(isinstance(e, elements.Fiber) and e.params.loss_coef.size > 1 for e in path):
            # channels see different losses: the design (made at the reference frequency) has no single expected power
            ctx.label('path:not-judged-per-frequency-loss')
            ctx.label('power_mode' if power_mode else 'gain_mode')
            ctx.nontrivial(interesting)
            return
        with _paths.Recorder() as rec:
            propagate(path, req, equipment)
        import numpy as np
        judged = False
        ok_segment = False
        flat_segment = True     # becomes False after an amplifier with ripple/tilt until the next ROADM re-equalises
        for r in rec.top():
            el, after, before = r['el'], r['after'], r['before']
            if isinstance(el, elements.Roadm):
                deg = r['kw']['degree']
                if deg.startswith('trx'):
                    ok_segment = False
                    continue
                tgt = roadm_target.get((el.uid, deg))
                pin = 10 * np.log10(before['pch'] * 1e3)
                pout = 10 * np.log10(after['pch'] * 1e3)
                reach = (pin.min() >= tgt - 1e-9) and (pout.max() <= tgt + 1e-6)
                ok_segment = bool(np.all(np.abs(pout - tgt) <= 1e-6))
                flat_segment = True
                if not ok_segment:
                    ctx.label('path:roadm-target-not-reached')
                    if pin.min() - 30 > tgt:  # far above target (even a 30 dB path loss leaves margin): must equalise
                        ctx.violation('roadm-output-not-at-target', f'{el.uid}->{deg}: in {pin[:2]} out {pout[:2]} target {tgt}')
            elif isinstance(el, elements.Edfa) and ok_segment and el.uid in expected_out:
                exp = expected_out[el.uid]
                sig = 10 * np.log10(after['signal'] * 1e3)
                tot = 10 * np.log10(after['pch'] * 1e3)
                model = lib[el.params.type_variety]
                flat = model['type_def'] in ('variable_gain', 'fixed_gain', 'openroadm', 'openroadm_preamp',
                                             'openroadm_booster', 'dual_stage') and not el.tilt_target
                judged = True
                flat_segment = flat_segment and flat
                if flat_segment:
                    # every channel's signal is at most the designed power; the mean total (signal + noise) power is at
                    # least the designed one (noise differs slightly from channel to channel, and a saturated
                    # amplifier delivers exactly p_max in total)
                    mean_tot = 10 * np.log10(after['pch'].mean() * 1e3)
                    if sig.max() > exp + 1e-6 or mean_tot < exp - 1e-6:
                        ctx.violation('propagated-power-differs-from-design',
                                      f'{el.uid}: designed {exp:.6f} dBm, max signal {sig.max():.6f}, mean total {mean_tot:.6f}')
                        return
                else:
                    n = len(sig)
                    s_tot = 10 * np.log10(after['signal'].sum() * 1e3)
                    p_tot = 10 * np.log10(after['pch'].sum() * 1e3)
                    e_tot = exp + 10 * np.log10(n)
                    if s_tot > e_tot + 0.05 or p_tot < e_tot - 0.05:
                        ctx.violation('propagated-total-power-differs-from-design',
                                      f'{el.uid}: designed total {e_tot:.4f} dBm, signal {s_tot:.4f}, total {p_tot:.4f}')
                        return
            elif isinstance(el, elements.Multiband_amplifier) or type(el).__name__ == 'RamanFiber':
                ok_segment = False
        ctx.label('power_mode' if power_mode else 'gain_mode')
        if judged:
            ctx.label('path:judged')
        ctx.nontrivial(interesting)
    finally:
        netgen.reset_sim_params()


# ------------------------------------------------------------------------------------------------ line without ROADM

@st.composite
def line_case(draw):
    """point-to-point line that starts directly at a transceiver: trx A - (fibre - amplifier) x n - trx B, both directions"""
    lib = [{'type_variety': 'A0', 'type_def': 'variable_gain', 'gain_flatmax': 26, 'gain_min': 15, 'p_max': 23,
            'nf_min': 6, 'nf_max': 10, 'out_voa_auto': False, 'allowed_for_design': True},
           {'type_variety': 'A1', 'type_def': 'variable_gain', 'gain_flatmax': 16, 'gain_min': 8, 'p_max': 23,
            'nf_min': 6.5, 'nf_max': 11, 'out_voa_auto': False, 'allowed_for_design': True},
           {'type_variety': 'A2', 'type_def': 'fixed_gain', 'gain_flatmax': 32, 'gain_min': 26, 'p_max': 25,
            'nf0': 5.5, 'allowed_for_design': True}]
    si = draw(netgen.si_entry(power=draw(st.sampled_from([0, 1, -2, 3])),
                              tx_power=draw(st.sampled_from(['none', 0, 0, -3, 2]))))
    si['spacing'], si['baud_rate'] = 50e9, 32e9
    si.pop('use_si_channel_count_for_design', None)
    span = draw(netgen.span_entry(power_mode=True, eol=0, padding=draw(st.sampled_from([0, 10])), max_length=200))
    eq = draw(netgen.equipment(edfa=lib, si=si, span=span))
    els, conns = [], []
    for tag, (a, b) in (('ab', ('A', 'B')), ('ba', ('B', 'A'))):
        n = draw(st.integers(1, 4))
        seq = [f'trx {a}']
        for k in range(n):
            length = draw(st.sampled_from([40.0, 60.0, 80.0, 100.0, 120.0]))
            els.append({'uid': f'fiber {tag}.{k}', 'type': 'Fiber', 'type_variety': 'SSMF', 'metadata': netgen._meta(tag),
                        'params': {'length': length, 'length_units': 'km', 'loss_coef': draw(st.sampled_from([0.2, 0.22])),
                                   'con_in': 0.5, 'con_out': 0.5, 'att_in': 0}})
            op = {'gain_target': None, 'delta_p': draw(st.sampled_from([None, None, None, 0, 1.0])), 'tilt_target': 0,
                  'out_voa': draw(st.sampled_from([None, None, 0, 1.0]))}
            els.append({'uid': f'amp {tag}.{k}', 'type': 'Edfa', 'type_variety': draw(st.sampled_from(['', '', 'A0'])),
                        'operational': op, 'metadata': netgen._meta(tag)})
            seq += [f'fiber {tag}.{k}', f'amp {tag}.{k}']
        seq.append(f'trx {b}')
        conns += [{'from_node': x, 'to_node': y} for x, y in zip(seq[:-1], seq[1:])]
    els += [{'uid': 'trx A', 'type': 'Transceiver', 'metadata': netgen._meta('A')},
            {'uid': 'trx B', 'type': 'Transceiver', 'metadata': netgen._meta('B')}]
    return {'eq': eq, 'topo': {'elements': els, 'connections': conns}}


def run_line(case, ctx):
    """every amplifier of the line delivers the reference channel at reference power + its power offset (minus its VOA),
    whatever the transmitter power: the first amplifier's gain absorbs the difference"""
    import numpy as np
    from gnpy.core import elements
    from gnpy.tools.worker_utils import designed_network
    from gnpy.topology.request import compute_constrained_path, propagate
    eqj = case['eq']
    si = eqj['SI'][0]
    netgen.reset_sim_params()
    try:
        try:
            equipment, network = netgen.build_network(eqj, case['topo'])
            network, req, ref_req = designed_network(equipment, network, source='trx A', destination='trx B')
        except Exception as e:  # noqa owned by C08
            ctx.label('skipped:design-failed:' + type(e).__name__)
            return
        pref = float(si['power_dbm'])
        tx = si.get('tx_power_dbm')
        ctx.label('tx-power:' + ('not-given' if tx is None else 'zero' if tx == 0 else 'other'),
                  'ref-power:' + ('zero' if pref == 0 else 'non-zero'))
        path = compute_constrained_path(network, req)
        if not path:
            ctx.label('skipped:no-path')
            return
        with _paths.Recorder() as rec:
            propagate(path, req, equipment)
        judged = 0
        for r in rec.top():
            el = r['el']
            if not isinstance(el, elements.Edfa):
                continue
            if el.effective_gain is None or el.delta_p is None:
                ctx.violation('line:amplifier-not-designed', el.uid)
                return
            exp = pref + el.delta_p - (el.out_voa or 0.0)
            sig = 10 * np.log10(r['after']['signal'] * 1e3)
            mean_tot = 10 * np.log10(r['after']['pch'].mean() * 1e3)
            judged += 1
            if sig.max() > exp + 1e-6 or mean_tot < exp - 1e-6:
                ctx.violation('line:propagated-power-differs-from-design',
                              f'{el.uid}: designed {exp:.6f} dBm (reference {pref} + offset {el.delta_p} - VOA {el.out_voa}), '
                              f'max signal {sig.max():.6f}, mean total {mean_tot:.6f}; transmitter power {tx}')
                return
        ctx.nontrivial(judged >= 1 and (tx is not None) and tx != pref)
    finally:
        netgen.reset_sim_params()



CHECKS = [Check('design-power', design_case(), run, quick=1200, thorough=40000,
                doc='gain/target consistency, documented rule, propagation of the design comb'),
          Check('line-without-roadm', line_case(), run_line, quick=300, thorough=8000,
                doc='point-to-point line starting at a transceiver: every amplifier delivers reference power + offset')]
