"""C10 — auto-selected amplifiers are allowed, capable and the quietest capable choice (DESIGN §3 C10).

Sub-check `select`: generated library x (gain, power, raman_allowed, allowance) straight into select_edfa().
Sub-check `network`: generated networks through the real design; every amplifier whose model was chosen by
auto-design is judged against the permitted set (precedence: own variety list, adjacent ROADM restriction,
allowed_for_design; band; Raman rule) and against the capability / noise ranking.
"""
import math
from hypothesis import strategies as st

from pbt.runner import Check
from pbt.gens import netgen

PROPERTY = 'C10'
RULE = ('select: Hypothesis-generated library of 2-10 amplifier models (variable/fixed gain, advanced, OpenROADM, dual '
        'stage, Raman-flagged; gain ranges, p_max, NF) and a required (gain, power, raman_allowed, extended-gain allowance) '
        'given to the real select_edfa(); network: generated meshes whose amplifiers carry no model (variety lists, ROADM '
        'booster/preamp restrictions, allowed_for_design flags, reduced-band models, per-frequency fibre loss around the Raman '
        'limit, hybrid Raman models) designed by designed_network(); multiband: C+L lines of untyped multiband amplifiers with '
        '2-4 multiband models whose per-band gain ranges lie a few dB apart (judged: permitted, one model for all bands, '
        'capable if a capable model exists, not dominated in noise figure by a capable model). '
        'Non-trivial = >=3 permitted candidates with >=2 capable ones of distinct NF, or a restriction in force. '
        'distinct = sha1 of the case JSON.')
ASSUMPTIONS = ['"can deliver" = gain_target <= gain_flatmax + allowance and power_target <= p_max, among the models that '
               'respect the minimum-gain rule (3 dB allowance for EDFAs, none for Raman) when at least one does',
               'cases within 1e-6 dB of a capability boundary and NF ties are not judged',
               'NF at the required gain: own closed form for variable_gain/fixed_gain models, edfa_nf() for the others']

BND = 1e-6


def db2lin(x):
    return 10 ** (x / 10)


def lin2db(x):
    return 10 * math.log10(x)


def own_nf(amp, gain):
    """NF at `gain` from the documented model (docs/amplifier_models_description); None if not re-derived here"""
    if amp.type_def == 'variable_gain':
        m = amp.nf_model
        pad = max(amp.gain_min - gain, 0)
        g = gain + pad
        dg = max(amp.gain_flatmax - g, 0)
        g1a = g - m.delta_p - dg
        return lin2db(db2lin(m.nf1) + db2lin(m.nf2) / db2lin(g1a)) + pad
    if amp.type_def == 'fixed_gain':
        return amp.nf_model.nf0 + max(amp.gain_min - gain, 0)
    return None


def nf_of(amp, gain):
    from gnpy.core.network import edfa_nf
    v = own_nf(amp, gain)
    ref = float(edfa_nf(gain, amp))
    if v is not None and abs(v - ref) > 1e-9:
        return v, ref
    return (v if v is not None else ref), ref


def pool_and_capable(eqpt, names, gain, power, ext, raman_allowed):
    """returns (pool, capable, boundary_hit)"""
    boundary = False
    cands = [n for n in names if (not eqpt[n].raman) or raman_allowed]
    ok_min = []
    for n in cands:
        a = eqpt[n]
        margin = gain + (0 if a.raman else 3) - a.gain_min
        if abs(margin) <= BND:
            boundary = True
        if margin > 0:
            ok_min.append(n)
    pool = ok_min if ok_min else [n for n in cands if not eqpt[n].raman]
    capable = []
    for n in pool:
        a = eqpt[n]
        pw = min(power - gain + a.gain_flatmax + ext, a.p_max) - power
        if abs(pw) <= BND:
            boundary = True
        if pw > 0:
            capable.append(n)
    return pool, capable, boundary


# ------------------------------------------------------------------------------------------------ select

@st.composite
def select_case(draw):
    lib = draw(netgen.edfa_library(n=(2, 10), ensure_design=False, raman=True))
    # raman flag on some single-stage models too
    for e in lib:
        if e['type_def'] in ('variable_gain', 'fixed_gain') and draw(st.integers(0, 6)) == 0:
            e['raman'] = True
    gain = round(draw(st.one_of(st.floats(0.0, 40.0), st.sampled_from([e['gain_flatmax'] for e in lib if 'gain_flatmax' in e])
                                .map(lambda g: g + 1.0))), 3)
    power = round(draw(st.one_of(st.floats(5.0, 27.0), st.sampled_from([20.0, 21.0, 23.0, 19.82]))), 3)
    ext = draw(st.sampled_from([2.5, 0.0, 1.0, 3.0]))
    subset = draw(st.lists(st.booleans(), min_size=len(lib), max_size=len(lib)))
    if draw(st.integers(0, 3)) == 0:
        # two models a fraction of a dB apart in maximum gain and a requirement in between: one can just deliver it (by
        # 0.05-0.15 dB), the other just cannot (short by 0.05-0.15 dB)
        g = draw(st.integers(18, 30))
        can = draw(netgen.variable_gain_entry('NA', design=True, gain_range=(g - 10, g)))
        cannot = draw(netgen.variable_gain_entry('NB', design=True, gain_range=(g - 10.2, g - 0.2)))
        for e in (can, cannot):
            e['p_max'] = 25
            e['out_voa_auto'] = False
        lib += [can, cannot]
        subset += [True, True]
        gain = round(g + ext - draw(st.sampled_from([0.05, 0.1, 0.15])), 3)
        power = round(draw(st.sampled_from([15.0, 18.0, 20.0])), 3)
    return {'edfa': lib, 'gain': gain, 'power': power, 'raman_allowed': draw(st.booleans()),
            'ext': ext, 'subset': subset}


def run_select(case, ctx):
    from gnpy.core.network import select_edfa
    from gnpy.core.exceptions import ConfigurationError
    eq_json = {'Edfa': case['edfa']}
    equipment = netgen.load_equipment(eq_json)
    names = [e['type_variety'] for e, keep in zip(case['edfa'], case['subset']) if keep] or \
        [case['edfa'][0]['type_variety']]
    eqpt = {n: equipment['Edfa'][n] for n in names}
    gain, power, ext, ra = case['gain'], case['power'], case['ext'], case['raman_allowed']
    pool, capable, boundary = pool_and_capable(eqpt, names, gain, power, ext, ra)
    try:
        chosen, reduction = select_edfa(ra, gain, power, eqpt, 'uid', ext, verbose=False)
    except ConfigurationError:
        # documented: no (non-Raman) amplifier at all can be used
        if pool:
            ctx.violation('select-raised-although-candidates-exist', f'pool={pool}')
        ctx.label('outcome:configuration-error')
        return
    if not pool:
        ctx.violation('selected-from-empty-pool', f'chosen={chosen}')
        return
    if chosen not in names:
        ctx.violation('chosen-not-in-given-set', f'{chosen} not in {names}')
        return
    if eqpt[chosen].raman and not ra:
        ctx.violation('raman-model-chosen-although-not-allowed', chosen)
        return
    ctx.label(f'ncapable:{min(len(capable), 3)}')
    if boundary:
        ctx.label('not-judged:boundary')
        return
    if capable:
        if chosen not in capable:
            ctx.violation('chosen-not-capable-while-capable-exists', f'chosen={chosen} capable={capable} gain={gain} '
                                                                     f'power={power} ext={ext}')
            return
        if reduction != 0:
            ctx.violation('power-reduction-on-capable-model', f'{chosen}: {reduction}')
        nf_c, ref_c = nf_of(eqpt[chosen], gain)
        nfs = {}
        for n in capable:
            v, ref = nf_of(eqpt[n], gain)
            if abs(v - ref) > 1e-9:
                ctx.violation('nf-used-for-ranking-differs-from-model', f'{n}: edfa_nf={ref} documented model={v} at gain {gain}')
                return
            nfs[n] = v
        best = min(nfs.values())
        if nf_c > best + 1e-9:
            ctx.violation('quieter-capable-model-exists', f'chosen {chosen} NF {nf_c:.4f}; {nfs}')
            return
        ctx.nontrivial(len(names) >= 3 and len(capable) >= 2 and len({round(v, 6) for v in nfs.values()}) >= 2)
        ctx.label('outcome:capable')
    else:
        # nobody can: the chosen model is within 0.3 dB of the best available power and the reduction is its shortfall
        pw = {n: min(power - gain + eqpt[n].gain_flatmax + ext, eqpt[n].p_max) - power for n in pool}
        if chosen not in pool:
            ctx.violation('chosen-outside-min-gain-pool', f'{chosen} pool={pool}')
            return
        if abs(reduction - pw[chosen]) > 1e-9:
            ctx.violation('power-reduction-not-the-shortfall', f'{chosen}: reduction {reduction} shortfall {pw[chosen]}')
        if pw[chosen] < max(pw.values()) - 0.3 - 1e-9:
            ctx.violation('much-more-powerful-model-exists', f'chosen {chosen} {pw}')
        ctx.label('outcome:none-capable')


# ------------------------------------------------------------------------------------------------ network

@st.composite
def network_case(draw):
    lib = draw(netgen.edfa_library(n=(3, 8), raman=True))
    # a reduced-band model that must never be selected for the full band
    if draw(st.booleans()):
        e = draw(netgen.variable_gain_entry('RB', band=(192.2e12, 196.125e12), design=True))
        lib.append(e)
    # and one whose band ends below the top of the design band (starts below its bottom)
    if draw(st.booleans()):
        e = draw(netgen.variable_gain_entry('SB', band=(191.0e12, 195.2e12), design=True))
        lib.append(e)
    eq = draw(netgen.equipment(edfa=lib))
    chain_kw = {'fiber_kw': {'lumped': False, 'per_freq_loss': True, 'loss': (0.17, 0.32)}}
    topo, truth = draw(netgen.topology(eq, n=(2, 4), extra_max=2, chain_kw=chain_kw))
    # more fibres with a per-frequency loss around the Raman limit (lowest value at the reference frequency)
    for f in [e for e in topo['elements'] if e['type'] == 'Fiber' and not isinstance(e['params']['loss_coef'], dict)]:
        if draw(st.integers(0, 3)) == 0:
            base = draw(st.sampled_from([0.19, 0.2, 0.24, 0.245, 0.29]))
            shape = draw(st.sampled_from([[0.03, -0.01, -0.005, 0.04], [0.06, 0.02, 0.0, 0.0], [0.02, 0.0, 0.01, 0.03]]))
            f['params']['loss_coef'] = {'value': [round(base + d, 4) for d in shape],
                                        'frequency': [184e12, 190e12, 194e12, 198e12]}
    return {'eq': eq, 'topo': topo, 'truth': truth}


def run_network(case, ctx):
    from gnpy.core import elements
    from gnpy.tools.worker_utils import designed_network
    eqj, topo = case['eq'], case['topo']
    span, si = eqj['Span'][0], eqj['SI'][0]
    netgen.reset_sim_params()
    try:
        try:
            equipment, network = netgen.build_network(eqj, topo)
            designed_network(equipment, network)
        except Exception as e:  # noqa owned by C08
            ctx.label('skipped:design-failed:' + type(e).__name__)
            return
        el_json = {e['uid']: e for e in topo['elements']}
        lib_json = {e['type_variety']: e for e in eqj['Edfa']}
        band = (si['f_min'], si['f_max'])
        ext = span['target_extended_gain']
        nch = int((si['f_max'] - si['f_min']) // si['spacing'])
        pref_total = si['power_dbm'] + 10 * math.log10(nch)
        limit = span['max_fiber_lineic_loss_for_raman']
        interesting = False
        for node in network.nodes():
            if not isinstance(node, elements.Edfa):
                continue
            ej = el_json.get(node.uid)
            if ej is not None and ej.get('type_variety'):
                continue  # model imposed by the user
            chosen = node.params.type_variety
            if chosen not in equipment['Edfa']:
                continue  # C08
            prev_node = next(network.predecessors(node))
            next_node = next(network.successors(node))
            # ---- permitted set, by documented precedence
            restricted = True
            if ej is not None and ej.get('variety_list'):
                permitted = list(ej['variety_list'])
                ctx.label('restriction:variety-list')
            elif isinstance(prev_node, elements.Roadm) and roadm_list(eqj, el_json[prev_node.uid], 'booster_variety_list'):
                permitted = roadm_list(eqj, el_json[prev_node.uid], 'booster_variety_list')
                ctx.label('restriction:roadm-booster')
            elif isinstance(next_node, elements.Roadm) and roadm_list(eqj, el_json[next_node.uid], 'preamp_variety_list'):
                permitted = roadm_list(eqj, el_json[next_node.uid], 'preamp_variety_list')
                ctx.label('restriction:roadm-preamp')
            else:
                permitted = [n for n, e in lib_json.items() if e.get('allowed_for_design')]
                restricted = False
            permitted = [n for n in permitted if n in netgen.covering(eqj['Edfa'], band)]
            if chosen not in permitted:
                ctx.violation('chosen-model-not-permitted', f'{node.uid}: {chosen} not in {permitted}')
                continue
            if isinstance(prev_node, elements.Fiber):
                # the fibre as the user wrote it (pieces of a split fibre are named <uid>_(k/n)): every listed loss value
                # must be below the configured limit
                fj = el_json.get(prev_node.uid.split('_(')[0])
                lc = fj['params']['loss_coef'] if fj is not None else None
                if isinstance(lc, dict):
                    raman_allowed = all(v < limit for v in lc['value'])
                    ctx.label('prev-fibre:per-frequency-loss')
                    if not raman_allowed and min(lc['value']) < limit:
                        ctx.label('prev-fibre:loss-straddles-raman-limit')
                elif lc is not None:
                    raman_allowed = lc < limit
                else:
                    raman_allowed = bool((prev_node.params.loss_coef * 1e3 < limit).all())
            else:
                raman_allowed = False
            if equipment['Edfa'][chosen].raman:
                ctx.label('chosen:raman-model')
            if equipment['Edfa'][chosen].raman and not raman_allowed:
                ctx.violation('raman-model-after-lossy-fibre-or-non-fibre', f'{node.uid}: {chosen}, previous {prev_node.uid}')
                continue
            # ---- capability / noise ranking at the designed operating point
            model = lib_json[chosen]
            auto_voa = (span['power_mode'] and bool(model.get('out_voa_auto')) and
                        (ej is None or ej.get('operational', {}).get('out_voa') is None))
            voa = node.out_voa if auto_voa else 0.0
            gain = node.effective_gain - voa
            power = pref_total + node._delta_p - voa
            eqpt = {n: equipment['Edfa'][n] for n in permitted}
            pool, capable, boundary = pool_and_capable(eqpt, permitted, gain, power, ext, raman_allowed)
            a = eqpt[chosen]
            pw_c = min(power - gain + a.gain_flatmax + ext, a.p_max) - power
            if boundary and abs(pw_c) > BND:
                ctx.label('not-judged:boundary')
                continue
            if pw_c > BND:
                # no reduction was applied: (gain, power) are the required values
                if chosen not in capable:
                    ctx.label('not-judged:chosen-outside-min-gain-pool')
                    continue
                nfs = {n: nf_of(eqpt[n], gain)[0] for n in capable}
                if nfs[chosen] > min(nfs.values()) + 1e-9:
                    ctx.violation('quieter-capable-model-exists', f'{node.uid}: chosen {chosen} at gain {gain:.3f} power '
                                                                  f'{power:.3f}: {nfs}')
                if len(permitted) >= 3 and len(capable) >= 2 and len({round(v, 6) for v in nfs.values()}) >= 2:
                    interesting = True
            elif pw_c >= -BND:
                # reduced to the chosen model's limit: nobody in the pool may be more than 0.3 dB better there
                ok_min_now = [n for n in pool if gain + (0 if eqpt[n].raman else 3) - eqpt[n].gain_min > BND]
                for n in ok_min_now:
                    b = eqpt[n]
                    pw = min(power - gain + b.gain_flatmax + ext, b.p_max) - power
                    if pw > 0.3 + 1e-6:
                        ctx.violation('capable-model-ignored', f'{node.uid}: chosen {chosen} is at its limit while {n} has '
                                                               f'{pw:.3f} dB headroom at gain {gain:.3f} power {power:.3f}')
                        break
                ctx.label('outcome:at-limit')
            else:
                ctx.violation('designed-beyond-chosen-model-capability', f'{node.uid}: {chosen} gain {gain:.3f} power '
                                                                         f'{power:.3f} shortfall {pw_c:.4f}')
            if restricted:
                interesting = True
        ctx.nontrivial(interesting)
    finally:
        netgen.reset_sim_params()


# ------------------------------------------------------------------------------------------------ multiband

@st.composite
def multiband_case(draw):
    """C+L line(s) whose multiband amplifiers carry no model: design picks one multiband type for all bands"""
    from pbt.gens import bandnets
    edges = {'C': [191.25e12, 196.15e12], 'L': [186.55e12, 190.05e12]}
    edges.update(Cred=edges['C'], Cred2=edges['C'], Cshort=edges['C'], Lred=edges['L'])
    eq = bandnets.library(edges, 'C')
    ntypes = draw(st.integers(2, 4))
    edfa = []
    base = {'C': draw(st.sampled_from([20, 22, 25, 28])), 'L': draw(st.sampled_from([20, 22, 25, 28]))}
    for i in range(ntypes):
        parts = []
        for b in ('C', 'L'):
            # valid min/max-NF entries by forward construction (netgen), restricted to the band
            # gain ranges of the models of one band lie a few dB apart: several models can serve one span, some of them only
            # inside the extended-gain allowance
            gmax = base[b] + draw(st.sampled_from([-4, -2, -1, 0, 1, 2, 4]))
            e = draw(netgen.variable_gain_entry(f'{b}{i}', band=tuple(edges[b]), design=False,
                                                gain_range=(gmax - draw(st.sampled_from([8, 10, 12])), gmax)))
            e['out_voa_auto'] = False
            e['p_max'] = draw(st.sampled_from([23, 25]))
            edfa.append(e)
            parts.append(e['type_variety'])
        if i >= 1 and draw(st.integers(0, 2)) == 0:
            # this model shares the amplifier of one band with model 0 (same L or same C amplifier, another one in the other band)
            k = draw(st.integers(0, 1))
            dropped = parts[k]
            edfa[:] = [e for e in edfa if e['type_variety'] != dropped]
            parts[k] = ('C0', 'L0')[k]
        if draw(st.booleans()):
            parts.reverse()
        edfa.append(bandnets._mb(f'MB{i}', parts, design=(i == 0) or draw(st.integers(0, 3)) > 0))
    eq['Edfa'] = edfa
    eq['Span'][0]['target_extended_gain'] = draw(st.sampled_from([2.5, 2.5, 0, 1.0, 3.0]))
    eq['Span'][0]['padding'] = draw(st.sampled_from([10, 5, 0]))
    topo, truth = draw(bandnets.band_topology(['CLauto'], edges, n=(2, 3), extra_max=1, both_dirs_same=True))
    # span losses spread around the gain limits of the generated models
    for e in topo['elements']:
        if e['type'] == 'Fiber':
            e['params']['length'] = draw(st.sampled_from([60.0, 75.0, 85.0, 92.5, 100.0, 107.5, 115.0, 125.0, 140.0]))
    return {'eq': eq, 'topo': topo, 'truth': truth, 'edges': edges}


def run_multiband(case, ctx):
    from gnpy.core import elements
    from gnpy.tools.worker_utils import designed_network
    eqj, topo = case['eq'], case['topo']
    span, si = eqj['Span'][0], eqj['SI'][0]
    ext = span['target_extended_gain']
    netgen.reset_sim_params()
    try:
        equipment, network = netgen.build_network(eqj, topo)
        designed_network(equipment, network)
    except Exception as e:  # noqa
        if 'do not belong to the same amp type' in str(e):
            # the band amplifiers picked for one multiband amplifier must form one permitted multiband model
            ctx.violation('band-amplifiers-picked-from-different-multiband-models', str(e)[:300])
            return
        ctx.label('skipped:design-failed:' + type(e).__name__)     # owned by C08
        return
    lib = {e['type_variety']: e for e in eqj['Edfa']}
    permitted = [n for n, e in lib.items() if e['type_def'] == 'multi_band' and e['allowed_for_design']]
    el_json = {e['uid']: e for e in topo['elements']}
    # design bands as given to the ROADM degrees of this generator (bandnets 'CLauto'): channel count per band
    bands = {}
    for r in topo['elements']:
        for lst in r.get('params', {}).get('per_degree_design_bands', {}).values() if r['type'] == 'Roadm' else []:
            for b in lst:
                name = 'L' if b['f_max'] < 191e12 else 'C'
                bands[name] = b
    interesting = False
    for node in network.nodes():
        if not isinstance(node, elements.Multiband_amplifier):
            continue
        if el_json.get(node.uid, {}).get('type_variety'):
            continue
        chosen_type = node.params.type_variety
        if chosen_type not in permitted:
            ctx.violation('chosen-multiband-model-not-permitted', f'{node.uid}: {chosen_type} not in {permitted}')
            continue
        per_band = {}
        for amp in node.amplifiers.values():
            b = 'L' if amp.params.f_max < 191e12 else 'C'
            per_band[b] = amp
        if sorted(per_band) != ['C', 'L']:
            ctx.violation('multiband-amplifier-does-not-cover-the-design-bands', f'{node.uid}: {sorted(per_band)}')
            continue
        if sorted(a.params.type_variety for a in per_band.values()) != sorted(lib[chosen_type]['amplifiers']):
            ctx.violation('band-amplifiers-not-those-of-the-chosen-multiband-model',
                          f'{node.uid}: {chosen_type} = {lib[chosen_type]["amplifiers"]} but '
                          f'{[a.params.type_variety for a in per_band.values()]}')
            continue
        # per band: required operating point, capability and NF of the constituent of every permitted type
        reduced, boundary = False, False
        capable_types = set(permitted)
        nf = {}
        for b, amp in per_band.items():
            db = bands[b]
            nch = int((db['f_max'] - db['f_min']) // db['spacing'])
            gain = amp.effective_gain
            power = si['power_dbm'] + 10 * math.log10(nch) + amp._delta_p
            for t in permitted:
                name = next(n for n in lib[t]['amplifiers'] if (lib[n]['f_max'] < 191e12) == (b == 'L'))
                a = equipment['Edfa'][name]
                margin = gain + 3 - a.gain_min
                pw = min(power - gain + a.gain_flatmax + ext, a.p_max) - power
                if t == chosen_type and pw <= BND:
                    reduced = True
                elif abs(margin) <= BND or abs(pw) <= BND:
                    boundary = True
                if not (margin > 0 and pw > 0):
                    capable_types.discard(t)
                nf[(t, b)] = nf_of(a, gain)[0]
        if reduced:
            ctx.label('outcome:at-limit')
            continue
        if boundary:
            ctx.label('not-judged:boundary')
            continue
        ctx.label(f'capable-types:{min(len(capable_types), 3)}')
        if not capable_types:
            continue
        if chosen_type not in capable_types:
            ctx.violation('capable-multiband-model-exists-but-chosen-one-is-not', f'{node.uid}: chosen {chosen_type}, capable '
                                                                                  f'{sorted(capable_types)}')
            continue
        # one multiband type serves all bands, so the quietest model of one band may not be the quietest of another: the
        # chosen type must not be dominated, i.e. no capable permitted type is quieter in every band
        for t in sorted(capable_types):
            def same_model(b):
                pick = lambda typ: next(n for n in lib[typ]['amplifiers'] if (lib[n]['f_max'] < 191e12) == (b == 'L'))  # noqa E731
                return pick(t) == pick(chosen_type)
            # (two different models with the same noise figure in one band are a tie: not judged)
            if t != chosen_type and all(same_model(b) or nf[(t, b)] < nf[(chosen_type, b)] - 1e-6 for b in per_band) and \
                    any(nf[(t, b)] < nf[(chosen_type, b)] - 1e-6 for b in per_band):
                ctx.violation('quieter-capable-multiband-model-exists',
                              f'{node.uid}: chosen {chosen_type} ' + str({b: round(nf[(chosen_type, b)], 3) for b in per_band})
                              + f' but {t} ' + str({b: round(nf[(t, b)], 3) for b in per_band}) + ' is at least as quiet in every band and quieter in one')
                break
        if len(capable_types) >= 2:
            interesting = True
        ext_needed = any(per_band[b].effective_gain > equipment['Edfa'][per_band[b].params.type_variety].gain_flatmax + BND
                         for b in per_band)
        if ext_needed:
            ctx.label('chosen-works-inside-extended-gain-allowance')
    ctx.nontrivial(interesting)
    netgen.reset_sim_params()


def roadm_list(eq_json, el_json, key):
    """restriction list of a ROADM element: element params override the library entry"""
    r = el_json.get('params', {}).get('restrictions')
    if r is None:
        variety = el_json.get('type_variety', 'default')
        for e in eq_json['Roadm']:
            if e.get('type_variety', 'default') == variety:
                r = e.get('restrictions')
    return list((r or {}).get(key, []))


CHECKS = [
    Check('select', select_case(), run_select, quick=3000, thorough=120000, doc='select_edfa on generated libraries'),
    Check('network', network_case(), run_network, quick=800, thorough=16000, doc='models chosen by the real design'),
    Check('multiband', multiband_case(), run_multiband, quick=1500, thorough=40000,
          doc='multiband models chosen by the real design for untyped C+L amplifiers'),
]
