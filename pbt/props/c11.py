"""C11 — every computed route is a real, loop-free, constraint-respecting shortest path (DESIGN §3 C11).

Oracle: brute-force enumeration (own DFS) of all simple ROADM-level paths on the generated ground-truth multigraph,
expanded to element level through the designed network, filtered by "include items appear in order".
"""
from hypothesis import strategies as st

from pbt.runner import Check
from pbt.gens import netgen, services

PROPERTY = 'C11'
RULE = ('Generated designed mesh (2-6 ROADMs, up to 4 extra links beyond a spanning tree, fibre lengths with 1 m '
        'resolution) + 1-4 requests with include lists of 0-3 ROADMs / line elements / unknown names, LOOSE/STRICT mixes, '
        'optionally starting with the source or ending with the destination transceiver, run through requests_from_json, '
        'correct_json_route_list and compute_path_dsjctn(..., []) exactly as planning() does. '
        'Non-trivial = constrained optimum differs from the unconstrained optimum, or the include list is unsatisfiable. '
        'distinct = sha1 of the case JSON.')
ASSUMPTIONS = ['a returned path may exceed the brute-force minimum fibre length by < 1 m (gnpy adds 0.01 auxiliary weight per '
               'non-fibre hop; generated lengths have 1 m resolution)',
               'STRICT subset satisfiable but a LOOSE member not: either "blocked" or a path honouring the STRICT members is '
               'accepted (documentation: one STRICT makes the list STRICT)']

TOL_M = 1.0


@st.composite
def routing_case(draw, n=(2, 6), extra_max=4, parallel=False, max_req=4):
    eq = draw(netgen.equipment(span=draw(netgen.span_entry(max_length=200, padding=10, eol=0))))
    chain_kw = {'spans': (1, 2), 'fiber_kw': {'lumped': False, 'per_freq_loss': False}, 'fibreless': True}
    topo, truth = draw(netgen.topology(eq, n=n, extra_max=extra_max, parallel=parallel, chain_kw=chain_kw,
                                       per_degree=False, own_policy=False))
    # some fibres are longer than max_length: auto-design splits them and must keep the edge weights (fibre lengths)
    for f in [e for e in topo['elements'] if e['type'] == 'Fiber']:
        if draw(st.integers(0, 3)) == 0:
            f['params']['length'] = round(f['params']['length'] * draw(st.sampled_from([3.0, 5.0])), 3)
    reqs = []
    for i in range(draw(st.integers(1, max_req))):
        src = draw(st.integers(0, truth['n'] - 1))
        dst = draw(st.integers(0, truth['n'] - 2))
        if dst >= src:
            dst += 1
        reqs.append({'src': src, 'dst': dst, 'include': draw(services.include_list(truth)),
                     'lead_src': draw(st.integers(0, 5)) == 0, 'trail_dst': draw(st.integers(0, 5)) == 0,
                     'bidir': draw(st.booleans()), 'index_style': draw(st.sampled_from([0, 0, 1, 2, 3]))})
    return {'eq': eq, 'topo': topo, 'truth': truth, 'requests': reqs}


def prepare_network(case, ctx):
    """load, design, OMS list. None (labelled) when a stage owned by another property fails."""
    from gnpy.tools.worker_utils import designed_network
    from gnpy.topology.spectrum_assignment import build_oms_list
    try:
        equipment, network = netgen.build_network(case['eq'], case['topo'])
        designed_network(equipment, network)
    except Exception as e:  # noqa C08
        ctx.label('skipped:design-failed:' + type(e).__name__)
        return None
    try:
        oms_list = build_oms_list(network, equipment)
    except Exception as e:  # noqa C15
        ctx.label('skipped:oms-failed:' + type(e).__name__)
        return None
    return equipment, network, oms_list


def path_valid(ctx, gt, network, uids, src, dst, tag):
    if not uids or uids[0] != f'trx R{src}' or uids[-1] != f'trx R{dst}':
        ctx.violation('path-endpoints', f'{tag}: {uids[:2]}..{uids[-2:]} for R{src}->R{dst}')
        return False
    if len(set(uids)) != len(uids):
        dup = sorted({u for u in uids if uids.count(u) > 1})
        ctx.violation('path-visits-element-twice', f'{tag}: {dup[:4]}')
        return False
    for a, b in zip(uids[:-1], uids[1:]):
        if not network.has_edge(gt.nodes[a], gt.nodes[b]):
            ctx.violation('path-uses-non-existing-link', f'{tag}: {a} -> {b}')
            return False
    return True


def run(case, ctx):
    from gnpy.tools.json_io import requests_from_json
    from gnpy.topology.request import correct_json_route_list, compute_path_dsjctn, find_reversed_path
    netgen.reset_sim_params()
    prep = prepare_network(case, ctx)
    if prep is None:
        return
    equipment, network, oms_list = prep
    gt = services.Truth(case['truth'], network)
    data = {'path-request': []}
    cleaned = []
    for i, r in enumerate(case['requests']):
        inc = services.resolve_include(r['include'], gt)
        full = list(inc)
        if r['lead_src']:
            full = [(f"trx R{r['src']}", 'STRICT')] + full
        if r['trail_dst']:
            full = full + [(f"trx R{r['dst']}", 'STRICT')]
        data['path-request'].append(services.request_json(i, f"trx R{r['src']}", f"trx R{r['dst']}", include=full,
                                                          bidir=r['bidir'], index_style=r.get('index_style', 0)))
        kept = [(u, h) for u, h in inc if u != 'no such node']
        # naming the same node twice in a row is one constraint, not two
        merged = []
        for u, h in kept:
            if merged and merged[-1][0] == u:
                merged[-1] = (u, 'STRICT' if 'STRICT' in (h, merged[-1][1]) else 'LOOSE')
            else:
                merged.append((u, h))
        cleaned.append(merged)
    rqs = requests_from_json(data, equipment)
    rqs = correct_json_route_list(network, rqs)
    pths = compute_path_dsjctn(network, equipment, rqs, [])
    if len(pths) != len(rqs):
        ctx.violation('wrong-number-of-paths', f'{len(pths)} for {len(rqs)} requests')
        return
    interesting = False
    for r, items, req, pth in zip(case['requests'], cleaned, rqs, pths):
        src, dst = r['src'], r['dst']
        tag = f'req {req.request_id}'
        uids = [e.uid for e in pth]
        allp = gt.simple_paths(src, dst)
        exp = {tuple(p): gt.expand(src, p) for p in allp}
        lens = {tuple(p): gt.fibre_length(p) for p in allp}
        best_any = min(lens.values())
        item_uids = [u for u, _ in items]
        sat = [p for p, seq in exp.items() if services.is_subsequence(item_uids, seq)]
        strict_uids = [u for u, h in items if h == 'STRICT']
        sat_strict = [p for p, seq in exp.items() if services.is_subsequence(strict_uids, seq)]
        blocked = getattr(req, 'blocking_reason', None)
        if sat:
            best = min(lens[p] for p in sat)
            ctx.label('case:satisfiable' + ('-constrained' if item_uids else ''))
            if blocked or not uids:
                ctx.violation('blocked-although-route-exists', f'{tag}: {blocked}; include {items}')
                continue
            if not path_valid(ctx, gt, network, uids, src, dst, tag):
                continue
            if not services.is_subsequence(item_uids, uids):
                ctx.violation('include-list-not-honoured', f'{tag}: include {item_uids} path {uids}')
                continue
            got = sum(gt.nodes[u].params.length for u in uids if u.startswith('fiber '))
            if got > best + TOL_M:
                ctx.violation('route-not-shortest', f'{tag}: {got:.1f} m, shortest satisfying route {best:.1f} m; include {item_uids}')
                continue
            if best > best_any + TOL_M:
                interesting = True
        elif not strict_uids:
            ctx.label('case:loose-unsatisfiable')
            interesting = True
            if blocked or not uids:
                ctx.violation('blocked-although-only-loose-constraints-fail', f'{tag}: {blocked}; include {items}')
                continue
            if not path_valid(ctx, gt, network, uids, src, dst, tag):
                continue
            got = sum(gt.nodes[u].params.length for u in uids if u.startswith('fiber '))
            if got > best_any + TOL_M:
                ctx.violation('loose-fallback-not-shortest', f'{tag}: {got:.1f} m vs {best_any:.1f} m')
                continue
        elif not sat_strict:
            ctx.label('case:strict-unsatisfiable')
            interesting = True
            if uids or blocked != 'NO_PATH_WITH_CONSTRAINT':
                ctx.violation('strict-constraint-not-blocking', f'{tag}: reason {blocked}, path {uids[:6]}; include {items}')
                continue
        else:
            ctx.label('case:mixed-not-judged')
            if uids:
                if not path_valid(ctx, gt, network, uids, src, dst, tag):
                    continue
                if not services.is_subsequence(strict_uids, uids):
                    ctx.violation('strict-member-not-honoured', f'{tag}: {strict_uids} path {uids}')
                    continue
            elif blocked != 'NO_PATH_WITH_CONSTRAINT':
                ctx.violation('empty-path-without-reason', f'{tag}: {blocked}')
                continue
        # reverse direction (used for bidirectional requests and for spectrum assignment)
        if uids:
            rev = [e.uid for e in find_reversed_path(pth)]
            if path_valid(ctx, gt, network, rev, dst, src, tag + ' reverse'):
                if gt.sites_of(rev) != list(reversed(gt.sites_of(uids))):
                    ctx.violation('reverse-path-visits-other-sites', f'{tag}: {gt.sites_of(uids)} vs reverse {gt.sites_of(rev)}')
    ctx.nontrivial(interesting)


# ------------------------------------------------------------------------------------------------ --path option

@st.composite
def cli_path_case(draw):
    """the --path option of gnpy-transmission-example: names of ROADMs to cross, in the order given by the user"""
    eq = draw(netgen.equipment(span=draw(netgen.span_entry(max_length=200, padding=10, eol=0))))
    chain_kw = {'spans': (1, 1), 'fiber_kw': {'lumped': False, 'per_freq_loss': False}, 'fused': False, 'user_amps': False}
    topo, truth = draw(netgen.topology(eq, n=(3, 6), extra_max=3, chain_kw=chain_kw, per_degree=False, own_policy=False))
    # a generated simple walk over the links (>= 2 sites)
    site = draw(st.integers(0, truth['n'] - 1))
    walk, seen = [site], {site}
    for _ in range(truth['n']):
        nxt = sorted({b if a == site else a for a, b in truth['links'] if site in (a, b)} - seen)
        if not nxt or (len(walk) >= 2 and draw(st.integers(0, 2)) == 0):
            break
        site = draw(st.sampled_from(nxt))
        walk.append(site)
        seen.add(site)
    style = draw(st.sampled_from(['uid', 'uid-upper', 'short']))
    return {'eq': eq, 'topo': topo, 'truth': truth, 'walk': walk, 'style': style,
            'give_ends': draw(st.booleans())}


def run_cli_path(case, ctx):
    from gnpy.tools import cli_examples
    from gnpy.tools.worker_utils import designed_network
    from gnpy.topology.request import compute_constrained_path
    walk = case['walk']
    if len(walk) < 2:
        ctx.label('skipped:single-site')
        return
    netgen.reset_sim_params()
    try:
        equipment, network = netgen.build_network(case['eq'], case['topo'])
        network, req, _ = designed_network(equipment, network, source=f'trx R{walk[0]}', destination=f'trx R{walk[-1]}')
    except Exception as e:  # noqa C08
        ctx.label('skipped:design-failed:' + type(e).__name__)
        return
    names = [{'uid': f'roadm R{i}', 'uid-upper': f'ROADM R{i}', 'short': f'm R{i}'}[case['style']] for i in walk]
    nodes = {n.uid: n for n in network.nodes()}
    src, dst = nodes[f'trx R{walk[0]}'], nodes[f'trx R{walk[-1]}']
    if case['give_ends']:
        got = cli_examples._get_params_from_path(names, network, src, dst, src.uid, dst.uid)
    else:
        got = cli_examples._get_params_from_path(names, network, None, None, None, None)
    source, destination, nodes_list, loose_list = got
    want = [f'roadm R{i}' for i in walk] + [f'trx R{walk[-1]}']
    ctx.label('ends:' + ('given' if case['give_ends'] else 'inferred'), f'sites:{min(len(walk), 4)}')
    if (source.uid, destination.uid) != (f'trx R{walk[0]}', f'trx R{walk[-1]}'):
        ctx.violation('end-points', f'--path {names}: source {source.uid}, destination {destination.uid}')
        return
    if list(nodes_list) != want:
        ctx.violation('include-list-not-in-the-requested-order', f'--path {names}: nodes_list {nodes_list}')
        return
    req.source, req.destination, req.nodes_list, req.loose_list = source.uid, destination.uid, nodes_list, loose_list
    path = compute_constrained_path(network, req)
    sites = [e.uid for e in path if e.uid.startswith('roadm ')]
    if sites != want[:-1]:
        # the walk is a simple route over existing links: it is the only route crossing exactly these ROADMs in this order
        # unless a shorter parallel... the ROADM sequence must at least contain the requested ones in order
        it = iter(sites)
        if not all(any(x == w for x in it) for w in want[:-1]):
            ctx.violation('route-does-not-cross-the-named-roadms-in-order', f'--path {names}: route {sites}')
            return
    ctx.nontrivial(len(walk) >= 3 and sorted(walk) != walk)


CHECKS = [Check('routing', routing_case(), run, quick=2500, thorough=50000,
                doc='validity + optimality of compute_path_dsjctn routes vs brute force'),
          Check('cli-path', cli_path_case(), run_cli_path, quick=150, thorough=4000,
                doc='the --path option of gnpy-transmission-example resolves ROADM names in the order given')]
