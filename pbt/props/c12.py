"""C12 — requests declared disjoint never share a link in either direction (DESIGN §3 C12).

Soundness oracle: every returned path is mapped to the set of ground-truth undirected link ids it crosses (from the
generator's uid scheme — independent of isdisjoint(), of the OMS pairing and of find_reversed_path()); within each
synchronisation group these sets must be pairwise disjoint, otherwise the computation must have raised DisjunctionError.
Completeness oracle (single pair): own brute-force search for two link-disjoint simple paths honouring the include lists.
"""
from hypothesis import strategies as st

from pbt.runner import Check
from pbt.gens import netgen, services
from pbt.props.c11 import prepare_network, path_valid

PROPERTY = 'C12'
RULE = ('Generated designed mesh (2-6 ROADMs, up to 4 extra links; a second sub-check adds parallel links between two '
        'sites) + 2-5 requests + 1-3 synchronisation groups (pairs, triples, overlapping groups, with include '
        'constraints), run through requests_from_json, correct_json_route_list, deduplicate_disjunctions, '
        'requests_aggregation and compute_path_dsjctn as planning() does. Non-trivial = the unconstrained shortest paths '
        'of a group share a link (a detour is forced) or no disjoint solution exists. distinct = sha1 of the case JSON.')
ASSUMPTIONS = ['completeness is judged for groups of exactly two requests belonging to no other group, and only against '
               'solutions in which every request satisfies its whole include list (or has only LOOSE items)',
               'networks are small (<= 6 ROADMs), so every candidate path has far fewer than 80 elements']


@st.composite
def disjunction_case(draw, parallel=False):
    eq = draw(netgen.equipment(span=draw(netgen.span_entry(max_length=200, padding=10, eol=0))))
    chain_kw = {'spans': (1, 2), 'fiber_kw': {'lumped': False, 'per_freq_loss': False}, 'fibreless': True}
    n = (2, 4) if parallel else (2, 6)
    bridge = not parallel and draw(st.integers(0, 7)) == 0
    if bridge:
        # Wheatstone bridge: a-b, b-c, c-d short, a-c and b-d long; the shortest a->d route runs through the cross link b-c,
        # and a second route can use that same link the other way (a-c-b-d)
        chain_kw = dict(chain_kw, spans=(1, 1), fibreless=False)
        topo, truth = draw(netgen.topology(eq, chain_kw=chain_kw, per_degree=False, own_policy=False, symmetric=True,
                                           fixed_links=[(0, 1), (1, 2), (2, 3), (0, 2), (1, 3)]))
        short = draw(st.sampled_from([20.0, 30.0, 40.0]))
        for e in topo['elements']:
            lk = netgen.link_of(e['uid'])
            if e['type'] == 'Fiber' and lk is not None:
                e['params']['length'] = short if lk[0] in (0, 1, 2) else draw(st.sampled_from([100.0, 120.0, 140.0]))
                e['params'].pop('lumped_losses', None)
    else:
        topo, truth = draw(netgen.topology(eq, n=n, extra_max=4, parallel=parallel, chain_kw=chain_kw,
                                           per_degree=False, own_policy=False))
    nreq = draw(st.integers(2, 5))
    reqs = []
    for i in range(nreq):
        src = draw(st.integers(0, truth['n'] - 1))
        dst = draw(st.integers(0, truth['n'] - 2))
        if dst >= src:
            dst += 1
        inc = draw(services.include_list(truth, k_max=2)) if draw(st.integers(0, 2)) == 0 else []
        reqs.append({'src': src, 'dst': dst, 'include': inc})
    groups = []
    shape = 'bridge' if bridge else draw(st.sampled_from(['random', 'random', 'protection', 'cycle']))
    if bridge:
        rev = draw(st.booleans())
        reqs[0] = {'src': 3 if rev else 0, 'dst': 0 if rev else 3, 'include': []}
        reqs[1] = dict(reqs[0])
        groups.append([0, 1])
    if shape == 'protection':
        # 1+1 protection: two requests between the same end points that must be disjoint
        reqs[1] = dict(reqs[1], src=reqs[0]['src'], dst=reqs[0]['dst'])
        groups.append([0, 1])
    elif shape == 'cycle' and nreq >= 3:
        # three requests pairwise disjoint, declared as three pair groups (often between the same end points)
        if draw(st.booleans()):
            for i in (1, 2):
                reqs[i] = dict(reqs[i], src=reqs[0]['src'], dst=reqs[0]['dst'])
        groups += [[0, 1], [1, 2], [0, 2]]
    for g in range(draw(st.integers(0 if groups else 1, 2 if groups else 3))):
        size = draw(st.integers(2, min(3, nreq)))
        members = draw(st.lists(st.integers(0, nreq - 1), min_size=size, max_size=size, unique=True))
        groups.append(members)
    return {'eq': eq, 'topo': topo, 'truth': truth, 'requests': reqs, 'groups': groups, 'shape': shape}


def run(case, ctx):
    from gnpy.tools.json_io import requests_from_json, disjunctions_from_json
    from gnpy.topology.request import correct_json_route_list, compute_path_dsjctn, deduplicate_disjunctions, \
        requests_aggregation
    from gnpy.core.exceptions import DisjunctionError
    netgen.reset_sim_params()
    prep = prepare_network(case, ctx)
    if prep is None:
        return
    equipment, network, oms_list = prep
    gt = services.Truth(case['truth'], network)
    data = {'path-request': [], 'synchronization': []}
    items = []
    for i, r in enumerate(case['requests']):
        inc = services.resolve_include(r['include'], gt)
        data['path-request'].append(services.request_json(i, f"trx R{r['src']}", f"trx R{r['dst']}", include=inc))
        kept = [(u, h) for u, h in inc if u != 'no such node']
        items.append(kept)
    for g, members in enumerate(case['groups']):
        data['synchronization'].append(services.sync_json(f's{g}', members))
    rqs = requests_from_json(data, equipment)
    rqs = correct_json_route_list(network, rqs)
    dsjn = deduplicate_disjunctions(disjunctions_from_json(data))
    rqs, dsjn = requests_aggregation(rqs, dsjn)
    ids = [r.request_id for r in rqs]
    if sorted(ids) != sorted(str(i) for i in range(len(case['requests']))):
        ctx.label('not-judged:aggregated')
        return
    groups = [[int(x) for x in d.disjunctions_req] for d in dsjn]
    # brute force helpers
    cand = {}
    for i, r in enumerate(case['requests']):
        allp = gt.simple_paths(r['src'], r['dst'])
        uids_full = [u for u, _ in items[i]]
        all_loose = all(h == 'LOOSE' for _, h in items[i])
        ok = []
        for p in allp:
            seq = gt.expand(r['src'], p)
            if all_loose or services.is_subsequence(_dedupe(uids_full), seq):
                ok.append((frozenset(l for l, _ in p), gt.fibre_length(p)))
        cand[i] = ok
    try:
        pths = compute_path_dsjctn(network, equipment, rqs, dsjn)
    except DisjunctionError:
        ctx.label('outcome:disjunction-error', 'shape-error:' + case.get('shape', 'random'))
        interesting = False
        for g in groups:
            others = [h for h in groups if h is not g and set(h) & set(g)]
            if len(g) == 2 and not others:
                a, b = g
                sols = [(la, lb) for la, _ in cand[a] for lb, _ in cand[b] if not (la & lb)]
                sol = bool(sols)
                links_ = case['truth']['links']
                # every solution routes the two requests over two parallel links between the same two sites: the recorded
                # limitation of reversed_oms (opposite directions are paired by end points only)
                needs_parallel = sol and all(any(set(links_[i]) == set(links_[j]) for i in la for j in lb) for la, lb in sols)
                if sol and len(groups) == 1:
                    ctx.violation('disjunction-error-although-solution-exists' +
                                  (':every-solution-uses-two-parallel-links' if needs_parallel else ''),
                                  f'requests {a},{b}: R{case["requests"][a]["src"]}->R{case["requests"][a]["dst"]} and '
                                  f'R{case["requests"][b]["src"]}->R{case["requests"][b]["dst"]} include {items[a]} / {items[b]}')
                interesting = interesting or not sol
        ctx.nontrivial(interesting)
        return
    ctx.label('outcome:paths', 'shape:' + case.get('shape', 'random'))
    by_id = {int(r.request_id): [e.uid for e in p] for r, p in zip(rqs, pths)}
    # a synchronised request keeps its STRICT route constraints (no combination satisfying them => DisjunctionError above)
    for i in sorted(by_id):
        strict = [u for u, h in items[i] if h == 'STRICT']
        if strict and by_id[i] and not services.is_subsequence(_dedupe(strict), by_id[i]):
            ctx.violation('strict-constraint-ignored-for-a-synchronised-request',
                          f'request {i}: STRICT {strict}; route {[u for u in by_id[i] if u.startswith("roadm")]}')
            return
    interesting = False
    for g in groups:
        for i in g:
            r = case['requests'][i]
            if by_id[i] and not path_valid(ctx, gt, network, by_id[i], r['src'], r['dst'], f'req {i}'):
                return
        for x in range(len(g)):
            for y in range(x + 1, len(g)):
                a, b = g[x], g[y]
                la, lb = gt.links_of(by_id[a]), gt.links_of(by_id[b])
                if not by_id[a] or not by_id[b]:
                    ctx.violation('disjoint-request-without-path', f'requests {a},{b}: {len(by_id[a])}/{len(by_id[b])} elements')
                    continue
                if la & lb:
                    # the recorded limitation: opposite directions of one of several parallel links between two sites
                    links = [tuple(sorted(l)) for l in case['truth']['links']]
                    da = {netgen.link_of(u) for u in by_id[a] if netgen.link_of(u)}
                    db = {netgen.link_of(u) for u in by_id[b] if netgen.link_of(u)}
                    only_opposite_parallel = all(
                        links.count(links[l]) > 1 and {d for k, d in da if k == l}.isdisjoint({d for k, d in db if k == l})
                        for l in la & lb)
                    sig = 'disjoint-requests-share-link' + (':opposite-directions-of-a-parallel-link'
                                                            if only_opposite_parallel else '')
                    ctx.violation(sig, f'requests {a},{b} of one synchronisation group both cross '
                                       f'link(s) {sorted(la & lb)}: {by_id[a]} / {by_id[b]}')
                # was a detour forced?
                sa = min(cand[a], key=lambda t: t[1])[0] if cand[a] else None
                sb = min(cand[b], key=lambda t: t[1])[0] if cand[b] else None
                if sa is not None and sb is not None and sa & sb:
                    interesting = True
    ctx.nontrivial(interesting)


def _dedupe(uids):
    return [u for k, u in enumerate(uids) if k == 0 or u != uids[k - 1]]


CHECKS = [
    Check('disjoint', disjunction_case(), run, quick=700, thorough=24000, doc='soundness + pair completeness'),
    Check('disjoint-parallel', disjunction_case(parallel=True), run, quick=300, thorough=8000,
          doc='same on topologies with parallel links between two sites'),
]
