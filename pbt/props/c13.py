"""C13 — a service is accepted exactly when its worst channel clears the mode's threshold (DESIGN §3 C13).

fixed: one request with a given mode through the real planning(); receiver GSNR re-derived from the recorded raw line
       figure + transmitter OSNR + each add/drop OSNR once; penalties re-interpolated; verdict recomputed.
auto : the same request without mode; the expected mode is the first feasible one in (baud rate desc, bit rate desc)
       order among the modes fitting the spacing, feasibility of every mode coming from an independent fixed-mode planning on
       a fresh copy; receiver figures of the selected mode must equal those of that fixed-mode run (history clause).
Mode thresholds are placed relative to the achievable metric (probe run) so that both verdicts occur near the threshold.
"""
import copy
import math
from hypothesis import strategies as st

from pbt.runner import Check
from pbt.gens import netgen, services

PROPERTY = 'C13'
RULE = ('Generated small designed network (2-3 ROADMs; ROADM add_drop_osnr 30-100 dB or detailed add/drop impairment '
        'profiles with per-band roadm-osnr), transceiver with 1-6 modes (penalty tables for CD/PMD/PDL, tx_osnr, thresholds '
        'placed -10..+10 dB around the achievable metric, sys_margins 0-2 dB), one request (fixed mode or no mode, optional '
        'bidirectional, 4-40 channels) through planning(). Non-trivial = |metric - threshold| < 3 dB, or a non-zero/infinite '
        'penalty, or >= 2 modes explored. distinct = sha1 of the case JSON.')
ASSUMPTIONS = ['exact ties (|rounded metric - threshold| < 0.006 dB) are not judged',
               'automatic mode: all modes of one baud rate share the same equalisation offset (0)',
               'automatic mode cases in which an amplifier of the path saturated (gain clamp) are not judged',
               'express ROADM crossings carry no roadm-osnr in the generated profiles']

TIE = 0.006


def lin(db):
    return 10 ** (db / 10)


@st.composite
def service_case(draw, auto):
    si = draw(netgen.si_entry(tx_power='none'))
    si['spacing'] = 50e9
    si['baud_rate'] = 32e9
    lib = draw(netgen.edfa_library(n=(2, 4), kinds=('variable_gain', 'fixed_gain')))
    trx = draw(netgen.transceiver_entries(band=(si['f_min'], si['f_max']), n_modes=(2, 6) if auto else (1, 3),
                                          wide_spacing=True, offsets=True))[:1]
    eq = draw(netgen.equipment(edfa=lib, si=si, trx=trx,
                               span=draw(netgen.span_entry(max_length=150, eol=0))))
    chain_kw = {'spans': (1, 2), 'fiber_kw': {'lumped': False, 'per_freq_loss': False, 'overrides': True},
                'length_km': None}
    # per-channel impairments: fibres with a dispersion slope and a CD penalty table that ends inside the range of CD values
    # the channels reach (placed after the probe run, like the thresholds): some channels are outside the table
    # (values above 1 put the end of the table beyond every forward channel: the other direction of an asymmetric link may
    # still be outside)
    cd_cut = draw(st.one_of(st.none(), st.none(), st.floats(0.05, 0.95).map(lambda v: round(v, 3)),
                            st.sampled_from([1.5, 4.0, 20.0])))
    if cd_cut is not None:
        chain_kw['fiber_kw']['dispersion_slope'] = draw(st.sampled_from([59.0, 80.0, 45.0]))
    topo, truth = draw(netgen.topology(eq, n=(2, 3), extra_max=1, chain_kw=chain_kw, per_degree=False,
                                       per_degree_impairments=True))
    src = draw(st.integers(0, truth['n'] - 1))
    dst = draw(st.integers(0, truth['n'] - 2))
    if dst >= src:
        dst += 1
    modes = trx[0]['mode']
    if auto and cd_cut is None and len(modes) >= 2 and draw(st.integers(0, 2)) == 0:
        # the mode explored first carries a penalty table that no real path fits (CD beyond 10 ps/nm is outside), the others
        # carry none: what was evaluated for one mode must not stick to the next one
        first = max(modes, key=lambda m: (m['baud_rate'], m['bit_rate'], m.get('equalization_offset_db') or 0))
        for m in modes:
            m.pop('penalties', None)
        first['penalties'] = [{'chromatic_dispersion': 0, 'penalty_value': 0}, {'chromatic_dispersion': 10, 'penalty_value': 0.5}]
    # distance of each mode's threshold from the achievable metric: never within 0.05 dB (ties are not judged)
    rel = [round(draw(st.sampled_from([-1, 1])) * draw(st.one_of(st.floats(0.05, 3), st.floats(0.05, 10))), 2)
           for _ in modes]
    mode = None if auto else draw(st.integers(0, len(modes) - 1))
    ms = max(m['min_spacing'] for m in modes) if not auto else None
    spacing = draw(st.sampled_from([37.5e9, 50e9, 62.5e9, 75e9, 87.5e9, 100e9]))
    if not auto:
        spacing = max(spacing, modes[mode]['min_spacing'])
    return {'eq': eq, 'topo': topo, 'truth': truth, 'src': src, 'dst': dst, 'mode': mode, 'rel': rel,
            'spacing': spacing, 'nch': draw(st.integers(4, 40)), 'bidir': draw(st.booleans()), 'cd_cut': cd_cut,
            # NLI method of the process-wide simulation parameters: mostly the default GN model, sometimes a GGN method
            'sim': draw(st.sampled_from([None] * 7 + [{'nli_params': {'method': 'ggn_approx', 'dispersion_tolerance': 4,
                                                                    'phase_shift_tolerance': 0.1,
                                                                    'computed_number_of_channels': 3}}]))}


def own_penalty(table, value):
    """penalties as given in the library JSON (list of {impairment: x, penalty_value: y}); linear interpolation,
    infinite outside the table; a 0-penalty point at 0 is implied when all impairment values are positive"""
    pts = sorted((p[0], p[1]) for p in table)
    if all(x > 0 for x, _ in pts):
        pts = [(0.0, 0.0)] + pts
    if value < pts[0][0] or value > pts[-1][0]:
        return math.inf
    for (x0, y0), (x1, y1) in zip(pts[:-1], pts[1:]):
        if x0 <= value <= x1:
            return y0 if x1 == x0 else y0 + (y1 - y0) * (value - x0) / (x1 - x0)
    return pts[-1][1]


def mode_tables(mode):
    out = {}
    for imp in ('chromatic_dispersion', 'pmd', 'pdl'):
        pts = [(p[imp], p['penalty_value']) for p in mode.get('penalties', []) if imp in p]
        if pts:
            out[imp] = pts
    return out


def add_drop_osnr(eq_json, roadm_el, kind, freqs, from_uid=None, to_uid=None):
    """per-channel OSNR contribution of an add or drop crossing by the documented precedence: the profile named for
    this (from, to) crossing on the element, else the first library profile of that path type, else add_drop_osnr + 3 dB"""
    variety = roadm_el.get('type_variety', 'default')
    entry = next(r for r in eq_json['Roadm'] if r.get('type_variety', 'default') == variety)
    key = {'add': 'roadm-add-path', 'drop': 'roadm-drop-path'}[kind]
    wanted = None
    for e in roadm_el.get('params', {}).get('per_degree_impairments', []):
        if e['from_degree'] == from_uid and e['to_degree'] == to_uid:
            wanted = e['impairment_id']
    for prof in entry.get('roadm-path-impairments', []):
        if key in prof and (wanted is None or prof['roadm-path-impairments-id'] == wanted):
            out = []
            for f in freqs:
                v = None
                for rng in prof[key]:
                    fr = rng['frequency-range']
                    if fr['lower-frequency'] <= f <= fr['upper-frequency']:
                        v = rng.get('roadm-osnr')
                        break
                out.append(v)
            return out
    return [entry['add_drop_osnr'] + 10 * math.log10(2)] * len(freqs)


def plan(case, eq_json, mode_name, ctx):
    """fresh load + design + planning of the single request. Returns dict or None"""
    from gnpy.tools.worker_utils import designed_network, planning
    equipment, network = netgen.build_network(eq_json, case['topo'])
    designed_network(equipment, network)
    data = {'path-request': [services.request_json(
        0, f"trx R{case['src']}", f"trx R{case['dst']}", trx_type='T0', trx_mode=mode_name, spacing=case['spacing'],
        nb_channel=case['nch'], bidir=case['bidir'], path_bandwidth=100e9)]}
    designed_gain = {n.uid: n.effective_gain for n in network.nodes() if hasattr(n, 'effective_gain')}
    oms, pths, rpths, rqs, dsjn, result = planning(network, equipment, data)
    return {'equipment': equipment, 'network': network, 'req': rqs[0], 'path': pths[0], 'rpath': rpths[0],
            'designed_gain': designed_gain}


def receiver_metric(rx):
    import numpy as np
    return float(np.min(rx.snr_01nm - rx.total_penalty))


def check_receiver(ctx, case, eq_json, mode, path, direction):
    """own receiver arithmetic on one propagated path; returns the own metric (min over channels) or None"""
    import numpy as np
    rx = path[-1]
    el_json = {e['uid']: e for e in case['topo']['elements']}
    roadms = [e for e in path if type(e).__name__ == 'Roadm']
    freqs = None
    # frequencies of the propagated comb: f_min + spacing * i, restricted to what reached the receiver
    n = len(rx.snr_01nm)
    fmin = eq_json['Transceiver'][0]['frequency']['min']
    freqs = [fmin + case['spacing'] * i for i in range(1, n + 1)]
    uids = [e.uid for e in path]
    i0, i1 = uids.index(roadms[0].uid), uids.index(roadms[-1].uid)
    add = add_drop_osnr(eq_json, el_json[roadms[0].uid], 'add', freqs, uids[i0 - 1], uids[i0 + 1])
    drop = add_drop_osnr(eq_json, el_json[roadms[-1].uid], 'drop', freqs, uids[i1 - 1], uids[i1 + 1])
    if el_json[roadms[0].uid].get('params', {}).get('per_degree_impairments') or \
            el_json[roadms[-1].uid].get('params', {}).get('per_degree_impairments'):
        ctx.label('per-degree-impairment-ids')
    raw = np.asarray(rx.raw_snr_01nm, dtype=float)
    own = []
    for i in range(n):
        noise = lin(-raw[i]) + lin(-mode['tx_osnr'])
        for v in (add[i], drop[i]):
            if v is not None:
                noise += lin(-v)
        own.append(-10 * math.log10(noise))
    own = np.array(own)
    if np.max(np.abs(own - np.asarray(rx.snr_01nm))) > 1e-9:
        i = int(np.argmax(np.abs(own - np.asarray(rx.snr_01nm))))
        ctx.violation('receiver-gsnr-arithmetic', f'{direction}: ch {i}: reported {rx.snr_01nm[i]!r}, raw {raw[i]!r} + tx_osnr '
                                                  f'{mode["tx_osnr"]} + add {add[i]} + drop {drop[i]} gives {own[i]!r}')
        return None
    tables = mode_tables(mode)
    pen = np.zeros(n)
    for imp, pts in tables.items():
        vals = getattr(rx, imp)
        pen = pen + np.array([own_penalty(pts, float(v)) for v in vals])
    got_pen = np.asarray(rx.total_penalty, dtype=float) * np.ones(n)
    both_inf = np.isinf(pen) & np.isinf(got_pen)
    if not np.all(both_inf | (np.abs(np.where(both_inf, 0, pen - got_pen)) <= 1e-9)):
        ctx.violation('penalty-interpolation', f'{direction}: own {pen[:3]} reported {got_pen[:3]} '
                                               f'cd {rx.chromatic_dispersion[:2]} pmd {rx.pmd[:2]} pdl {rx.pdl[:2]}')
        return None
    if np.any(pen != 0):
        ctx.label('penalty:nonzero' + ('-inf' if np.any(np.isinf(pen)) else ''))
    return float(np.min(own - pen))


def build_eq(case, base_metric, cd_values=None):
    eqj = copy.deepcopy(case['eq'])
    margins = eqj['SI'][0]['sys_margins']
    for m, rel in zip(eqj['Transceiver'][0]['mode'], case['rel']):
        b = base_metric if math.isfinite(base_metric) else 15.0
        m['OSNR'] = round(b + rel - margins, 2)
        if case.get('cd_cut') is not None and cd_values is not None and max(cd_values) - min(cd_values) > 1e-3:
            lo, hi = min(cd_values), max(cd_values)
            cut = round(lo + case['cd_cut'] * (hi - lo), 4)
            rows = [p for p in m.get('penalties', []) if 'chromatic_dispersion' not in p]
            m['penalties'] = rows + [{'chromatic_dispersion': round(min(lo, 0.0) - 100.0, 4), 'penalty_value': 0},
                                     {'chromatic_dispersion': cut, 'penalty_value': 0.5}]
    return eqj


def run(case, ctx):
    netgen.reset_sim_params(case.get('sim'))
    try:
        _run(case, ctx)
    finally:
        netgen.reset_sim_params()


def _run(case, ctx):
    if case.get('sim'):
        ctx.label('nli:' + case['sim']['nli_params']['method'])
    auto = case['mode'] is None
    modes = case['eq']['Transceiver'][0]['mode']
    # ---- probe: achievable metric with the first candidate mode (thresholds at 0: always accepted)
    probe_eq = copy.deepcopy(case['eq'])
    for m in probe_eq['Transceiver'][0]['mode']:
        m['OSNR'] = 0
    cand = [m for m in modes if m['min_spacing'] <= case['spacing']]
    probe_mode = modes[case['mode']]['format'] if not auto else (cand[0]['format'] if cand else None)
    try:
        if probe_mode is not None:
            pr = plan(case, probe_eq, probe_mode, ctx)
            if not pr['path']:
                ctx.label('skipped:no-path')
                return
            base = receiver_metric(pr['path'][-1])
            cd_values = [float(v) for v in pr['path'][-1].chromatic_dispersion]
        else:
            base, cd_values = 15.0, None
    except Exception as e:  # noqa: design/OMS failures are owned by C08/C15
        from pbt.runner import classify_exception
        where, sig = classify_exception(e)
        if where == 'harness':
            raise
        ctx.label('skipped:probe-failed:' + type(e).__name__)
        return
    eqj = build_eq(case, base, cd_values)
    if case.get('cd_cut') is not None and cd_values is not None and max(cd_values) - min(cd_values) > 1e-3:
        ctx.label('cd-table-ends-inside-channel-range')
    margins = eqj['SI'][0]['sys_margins']
    modes = eqj['Transceiver'][0]['mode']

    def verdict_for(mode, res, forward_only=False):
        """own verdict of a fixed-mode planning result: (feasible | None for a tie | 'error', worst metric)"""
        m_f = check_receiver(ctx, case, eqj, mode, res['path'], 'forward')
        if m_f is None:
            return 'error', None
        metrics = [m_f]
        if case['bidir'] and res['rpath'] and not forward_only:
            m_r = check_receiver(ctx, case, eqj, mode, res['rpath'], 'reverse')
            if m_r is None:
                return 'error', None
            metrics.append(m_r)
        thr = mode['OSNR'] + margins
        worst = min(metrics)
        if any(abs(round(m, 2) - thr) < TIE or abs(m - thr) < TIE for m in metrics if math.isfinite(m)):
            return None, worst
        return all(round(m, 2) >= thr for m in metrics), worst

    if not auto:
        mode = modes[case['mode']]
        res = plan(case, eqj, mode['format'], ctx)
        req = res['req']
        if not res['path']:
            ctx.label('skipped:no-path')
            return
        feasible, worst = verdict_for(mode, res)
        if feasible == 'error':
            return
        reason = getattr(req, 'blocking_reason', None)
        if case['bidir'] and not res['rpath']:
            ctx.violation('bidirectional-without-reverse-propagation', f'reason {reason}')
            return
        if feasible is None:
            ctx.label('not-judged:tie')
            return
        ctx.label('verdict:' + ('feasible' if feasible else 'infeasible'))
        if feasible and reason is not None:
            ctx.violation('feasible-service-blocked', f'metric {worst:.4f} threshold {mode["OSNR"] + margins} reason {reason}')
        if not feasible and reason != 'MODE_NOT_FEASIBLE':
            ctx.violation('infeasible-service-accepted', f'metric {worst:.4f} threshold {mode["OSNR"] + margins} reason {reason}')
        ctx.nontrivial(abs(worst - (mode['OSNR'] + margins)) < 3 or not math.isfinite(worst))
        return

    # ---- automatic mode selection
    res = plan(case, eqj, None, ctx)
    req = res['req']
    reason = getattr(req, 'blocking_reason', None)
    cand = [m for m in modes if m['min_spacing'] <= case['spacing']]
    if not cand:
        ctx.label('auto:no-mode-fits-spacing')
        if reason != 'NO_FEASIBLE_BAUDRATE_WITH_SPACING':
            ctx.violation('no-fitting-mode-not-reported', f'reason {reason}')
        ctx.nontrivial(True)
        return
    # saturation during the exploration => later passes start from a clamped gain: not judged
    for e in res['path']:
        g = res['designed_gain'].get(e.uid)
        if g is not None and hasattr(e, 'effective_gain') and e.effective_gain is not None and abs(e.effective_gain - g) > 1e-9:
            ctx.label('not-judged:saturating')
            return
    order = sorted(cand, key=lambda m: (m['baud_rate'], m['bit_rate']), reverse=True)
    expected = None
    tie = False
    fixed = {}
    for m in order:
        r = plan(case, eqj, m['format'], ctx)
        if not r['path']:
            ctx.label('skipped:no-path')
            return
        # the exploration looks at the forward direction only (the reverse one is verified afterwards)
        f, worst = verdict_for(m, r, forward_only=True)
        if f == 'error':
            return
        fixed[m['format']] = (r, worst)
        if f is None:
            tie = True
            break
        if f:
            expected = m
            break
    if tie:
        ctx.label('not-judged:tie')
        return
    twins = [m for m in order if expected and (m['baud_rate'], m['bit_rate']) == (expected['baud_rate'], expected['bit_rate'])]
    if expected is None:
        ctx.label('auto:none-feasible')
        if reason != 'NO_FEASIBLE_MODE':
            ctx.violation('no-feasible-mode-not-reported', f'reason {reason}; modes {[m["format"] for m in order]}')
        ctx.nontrivial(len(order) >= 2)
        return
    ctx.label('auto:selected')
    if len(twins) > 1:
        # several candidate modes with the same baud rate and bit rate: which of them comes first is not stated
        ctx.label('not-judged:same-baud-and-bit-rate')
        return
    if case['bidir']:
        both, _ = verdict_for(expected, fixed[expected['format']][0])
        if both == 'error':
            return
        if both is not True:
            # selected on the forward direction, fails (or ties) on the reverse one: which lower mode, if any, should be
            # taken instead is not defined by the code base (documented TODO); only require that it is not accepted
            ctx.label('not-judged:auto-bidir-reverse-fails')
            if both is False and reason is None:
                ctx.violation('bidirectional-accepted-although-reverse-fails', f'mode {expected["format"]}')
            return
    if len(twins) > 1:
        ctx.label('not-judged:same-baud-and-bit-rate')
        return
    if reason is not None:
        ctx.violation('feasible-mode-exists-but-blocked', f'reason {reason}; expected {expected["format"]} '
                                                          f'(metric {fixed[expected["format"]][1]:.3f}, thr {expected["OSNR"] + margins})')
        return
    if req.tsp_mode != expected['format']:
        ctx.violation('wrong-mode-selected', f'selected {req.tsp_mode}, expected {expected["format"]}; order '
                                             f'{[(m["format"], m["baud_rate"], m["bit_rate"], m["OSNR"]) for m in order]}')
        return
    # history clause: the figures recorded for the selected mode equal an independent fixed-mode computation
    import numpy as np
    pairs = [('forward', res['path'][-1], fixed[expected['format']][0]['path'][-1])]
    if case['bidir'] and res['rpath'] and fixed[expected['format']][0]['rpath']:
        # the reverse direction is propagated with the selected mode as well (baud rate, power offset, tx OSNR)
        pairs.append(('reverse', res['rpath'][-1], fixed[expected['format']][0]['rpath'][-1]))
    for direction, a, b in pairs:
        for name in ('snr_01nm', 'osnr_ase_01nm', 'snr', 'osnr_ase', 'osnr_nli'):
            x, y = np.asarray(getattr(a, name)), np.asarray(getattr(b, name))
            if x.shape != y.shape or np.max(np.abs(x - y)) > 1e-9:
                ctx.violation('auto-mode-figures-differ-from-fixed-mode' + ('' if direction == 'forward' else ':reverse'),
                              f'{direction} {name}: auto {x[:3]} fixed {y[:3]}')
                return
    ctx.nontrivial(len(order) >= 2)


CHECKS = [
    Check('fixed-mode', service_case(False), run, quick=800, thorough=24000, doc='verdict with a given mode'),
    Check('auto-mode', service_case(True), run, quick=400, thorough=12000, doc='automatic mode selection vs fixed-mode runs'),
]
