"""C14 — spectrum assignment never double-books a slot and honours what the user fixed (DESIGN §3 C14).

A case is a small designed network (ROADM mesh whose OMS may have different usable bands: full C, two reduced-C
amplifier models, C+L multiband) plus a HISTORY: a sequence of steps, each step one real call
`pth_assign_spectrum(pths, rqs, oms_list, rpths)` with one request (how successive planning calls accumulate on one
oms_list) or with several requests, or a direct `OMS.assign_spectrum` pre-occupation (what the repository's own tests
use to create occupancy on one OMS only).  The history is interpreted by an explicit model

    usable[oms]  = slots FREE in the map handed out by build_oms_list (taken as given: C15 owns the maps)
    occ[oms]     = set of slot indices occupied so far (pure Python sets)

and after every call everything the property states is re-derived with set arithmetic (see `_judge_request`).

Guard-band rule, re-derived from Bitmap.__init__/spectrum_selection/determine_slot_numbers: every map spans the
network-wide amplifier range [f_min, f_max] (indices n_min..n_max, 6.25 GHz each) and a slot range handed to a
service must lie completely inside [n(f_min + 25 GHz), n(f_max - 25 GHz)] = [n_min + 4, n_max - 4].

Two sub-checks share the code:
  history      generator excludes, by construction, the input shapes on which the unchanged tree is known to fail
               (one-OMS path without reverse path -> made bidirectional; user-fixed N outside the map -> moved inside;
               bandwidth always >= what the user-fixed M can carry, so no fixed slot is superfluous and no leftover is
               smaller than a channel), so that the search continues behind them and mutants are visible;
  history-any  no exclusion: rediscovers the recorded findings.
"""
import copy
import math

from hypothesis import strategies as st

from pbt.runner import Check
from pbt.gens import netgen, bandnets

PROPERTY = 'C14'
RULE = ('Hypothesis-generated ROADM mesh (2-4 sites, 1-3 spans per direction, per-link amplifier band class: auto, full C, '
        'two reduced-C models, C+L multiband; generated band edges incl. off-grid values) designed by the real '
        'auto-design + build_oms_list, then a history of 1-9 steps: pth_assign_spectrum with 1 request or a batch of '
        '2-3, a direct OMS.assign_spectrum pre-occupation, or an "edge" step (the path is filled so that a window of '
        '2M-2..2M+2 slots remains at the top or bottom of what is still allowed, then M is requested). Requests are real PathRequest objects from '
        'requests_from_json (fixed mode, or mode left open and filled in as compute_path_with_disjunction does), k-th '
        'shortest ROADM route, reverse path from find_reversed_path or [], 1-4 frequency slots with any mix of fixed/free '
        'N and M (aligned, odd, too small, huge), bandwidth sufficient or not, spectrum filled by large requests. '
        'Non-trivial = history with >=1 blocked request after >=1 accepted one sharing an OMS, or an accepted/blocked '
        'multi-slot request. distinct = sha1 of the case JSON.')
ASSUMPTIONS = [
    'the initial maps (usable slots, extent) produced by build_oms_list are taken as given; their correctness is C15',
    'guard band = 25 GHz = 4 slot indices at both ends of the common map (Bitmap.freq_index_min/max, re-derived)',
    'requests rejected by the loader with ServiceError are invalid input and are not fed to the assignment',
    'an entry with fixed N but free M may be left out of the result when the bandwidth is already served '
    '(documented in compute_n_m docstring and tests); an entry with fixed M must be used or the request blocked',
    'first fit / completeness are judged for single-slot requests only (multi-slot order of service is not part of '
    'the statement)',
    'design failures are owned by C08: labelled skipped:design-failed',
]

GRID = 6.25e9
SLOT = 12.5e9
GUARD_SLOTS = 4          # 25 GHz / 6.25 GHz
MODES = {'m0': (100e9, 37.5e9), 'm1': (200e9, 50e9), 'm2': (400e9, 75e9)}   # bit rate, min spacing (bandnets lib)
SPACINGS = [37.5e9, 50e9, 62.5e9, 75e9, 100e9, 40e9, 56.25e9, 81.25e9]   # the last three are no multiples of the 12.5 GHz slot

# ------------------------------------------------------------------------------------------------ generator


def _per_m(spacing):
    return math.ceil(spacing / SLOT)


@st.composite
def _request(draw, n_sites, strict, anchors, edge=False):
    src = draw(st.integers(0, n_sites - 1))
    dst = draw(st.integers(0, n_sites - 2))
    if dst >= src:
        dst += 1
    mode = draw(st.sampled_from(['m0', 'm0', 'm1', 'm2']))
    spacing = draw(st.sampled_from([s for s in SPACINGS if s >= MODES[mode][1]]))
    per_m = _per_m(spacing)
    n_slots = 1 if edge else draw(st.sampled_from([1, 1, 1, 2, 2, 3, 4]))
    pattern = 'edge' if edge else draw(st.sampled_from(['mixed'] * 6 + ['all-odd', 'all-free']))
    slots = []
    for _ in range(n_slots):
        nk = draw(st.sampled_from(['free', 'free', 'free', 'fixed', 'fixed']))
        mk = draw(st.sampled_from(['free', 'free', 'free', 'mult', 'mult', 'mult', 'mult', 'odd', 'small', 'huge']))
        if pattern == 'all-odd':
            mk = 'odd'
        elif pattern == 'all-free':
            mk = 'free'
        elif pattern == 'edge':
            nk, mk = 'free', draw(st.sampled_from(['free', 'mult']))
        if nk == 'free':
            n = None
        else:
            base = draw(st.sampled_from(anchors))
            n = base + draw(st.sampled_from([0, 0, 4, 8, -4, -8, 1, -1, 3, 12, 16, -16, 24, 40, 64, -64]))
        if mk == 'free':
            m = None
        elif mk == 'mult':
            m = per_m * draw(st.sampled_from([1, 1, 1, 2, 2, 3, 4, 8]))
        elif mk == 'odd':
            m = per_m * draw(st.integers(1, 3)) + draw(st.integers(1, max(1, per_m - 1)))
        elif mk == 'small':
            m = draw(st.integers(1, per_m - 1))
        else:
            m = per_m * draw(st.sampled_from([24, 48, 60, 96]))
        slots.append([n, m, mk])
    if any(m is None for _, m, _ in slots):
        # docs/json.rst: "each slot inside the list must be large enough to fit one carrier" - the loader only logs
        # this; the code blocks it when every M is given (kept), a too-small M next to a free M is invalid input
        slots = [[n, (per_m if k == 'small' else m), k] for n, m, k in slots]
        if strict:
            # an M that is not a whole number of channels next to a free M: shape of a recorded finding
            slots = [[n, (m if m is None else per_m * max(1, m // per_m)), k] for n, m, k in slots]
    slots = [[n, m] for n, m, _ in slots]
    far = False
    if strict:
        # enough bandwidth that every slot with a user-fixed M is needed (see module docstring, recorded finding)
        fixed_sum = sum(m for _, m in slots if m is not None)
        lo = max(1, math.ceil(fixed_sum / per_m))
        nb_wl = lo + draw(st.sampled_from([0, 0, 0, 0, 0, 1, 2, 5]))
    else:
        nb_wl = draw(st.sampled_from([1, 1, 2, 2, 3, 4, 6, 8, 20, 60, 96, 120]))
        if draw(st.sampled_from([True] + [False] * 39)):
            # a user-fixed N far outside any map
            k = draw(st.integers(0, n_slots - 1))
            slots[k][0] = draw(st.sampled_from([5000, -5000, 1200, -1500]))
            far = True
    if not edge and draw(st.sampled_from([True, False, False, False])) and all(m is None for _, m in slots):
        nb_wl = draw(st.sampled_from([24, 48, 60, 90, 96, 97, 120]))      # one request filling (most of) the band
    exact = draw(st.booleans())
    bw = nb_wl * MODES[mode][0] if exact else (nb_wl - 0.5) * MODES[mode][0]
    loader = draw(st.sampled_from(['mode', 'mode', 'open']))
    if edge:
        nb_wl = max(1, slots[0][1] // per_m) if slots[0][1] else draw(st.sampled_from([1, 2, 3, 4, 8]))
        bw = nb_wl * MODES[mode][0]
    if all(m is not None for _, m in slots) and any(n is None for n, _ in slots):
        # json_io._check_one_request crashes (TypeError, None - int) on "all M given, some N free" with a fixed mode:
        # a loader defect outside this property; such requests reach the assignment with the mode left open
        loader = 'open'
    return {'src': src, 'dst': dst, 'route': draw(st.integers(0, 5)), 'rev': draw(st.sampled_from([True, True, False])),
            'mode': mode, 'spacing': spacing, 'slots': slots, 'bw': bw, 'loader': loader,
            'omit_slots': n_slots == 1 and slots[0] == [None, None] and draw(st.booleans()),
            'far': far, 'preblocked': (not edge) and draw(st.sampled_from([True] + [False] * 39))}


@st.composite
def history_case(draw, strict):
    edges = draw(bandnets.band_edges(same_fmax=True))
    with_l = draw(st.sampled_from([True] + [False] * 5))
    classes = draw(st.sampled_from([['auto'], ['auto', 'C', 'Cred'], ['auto', 'Cred', 'Cred2'], ['C', 'Cred', 'Cred2'],
                                    ['Cred', 'Cred2']]))
    if with_l:
        classes = ['CL', 'CLred', 'CLauto']
    topo, truth = draw(bandnets.band_topology(classes, edges, n=(2, 4), extra_max=2))
    # anchors for user-fixed N: both ends of the C map, the reduced-band edges, the grid origin, mid-band
    def idx(f):
        return int(round((f - 193.1e12) / GRID))
    lo, hi = idx(edges['C'][0]), idx(edges['C'][1])
    anchors = [lo, lo + 4, lo + 8, lo + 16, hi, hi - 4, hi - 8, hi - 16, 0, 100, -100, idx(edges['Cred'][0]),
               idx(edges['Cred'][0]) + 8, idx(edges['Cred2'][0]), idx(edges['Cred2'][0]) + 8]
    if with_l:
        anchors += [idx(edges['L'][0]) + 8, idx(edges['L'][1]) - 8, idx(edges['L'][1]) + 40]
    steps = []
    for _ in range(draw(st.integers(1, 9))):
        kind = draw(st.sampled_from(['one', 'one', 'one', 'one', 'batch', 'pre', 'edge']))
        if kind == 'edge':
            # fill the spectrum of the request's path so that a window of exactly 2M + delta slots remains at the top
            # (or bottom) of what is still allowed, then ask for M: boundary of the usable band / guard band
            steps.append({'reqs': [draw(_request(truth['n'], strict, anchors, edge=True))],
                          'edge': {'side': draw(st.sampled_from(['top', 'top', 'bottom'])),
                                   'delta': draw(st.sampled_from([-2, -1, 0, 0, 1, 2]))}})
        elif kind == 'pre':
            steps.append({'pre': {'link': draw(st.integers(0, len(truth['links']) - 1)),
                                  'dir': draw(st.sampled_from(['ab', 'ba'])),
                                  'N': draw(st.sampled_from(anchors)) + draw(st.sampled_from([0, 4, 12, 20, 32, -12, -32])),
                                  'M': draw(st.sampled_from([1, 2, 4, 4, 8, 16, 40]))}})
        else:
            k = 1 if kind == 'one' else draw(st.integers(2, 3))
            steps.append({'reqs': [draw(_request(truth['n'], strict, anchors)) for _ in range(k)]})
    return {'edges': edges, 'topo': topo, 'truth': truth, 'steps': steps, 'strict': strict,
            'spacing_si': draw(st.sampled_from([50e9, 50e9, 75e9])),
            # guard band of the spectrum maps in 6.25 GHz slot indices: 4 = the 25 GHz default of build_oms_list; other values
            # are set through OMS.update_spectrum(guardband=...) on every OMS before the history starts
            'guard_slots': draw(st.sampled_from([4, 4, 4, 8, 2]))}


# ------------------------------------------------------------------------------------------------ helpers

def _roadm_routes(truth, src, dst, limit=6):
    """simple ROADM-level routes sorted by (hops, sequence): own DFS on the generated graph"""
    adj = {}
    for a, b in truth['links']:
        adj.setdefault(a, set()).add(b)
        adj.setdefault(b, set()).add(a)
    out = []

    def dfs(seq):
        if seq[-1] == dst:
            out.append(list(seq))
            return
        for nb in sorted(adj.get(seq[-1], ())):
            if nb not in seq:
                dfs(seq + [nb])
    dfs([src])
    out.sort(key=lambda s: (len(s), s))
    return out[:limit]


def _element_path(network, nodes, truth, seq):
    """[trx, roadm, line elements..., roadm, trx] following, hop by hop, the elements whose uid carries the link and
    direction of the hop (ground truth of the generator), through whatever auto-design inserted"""
    from gnpy.core.elements import Roadm
    link_index = {}
    for lid, (a, b) in enumerate(truth['links']):
        link_index[(a, b)] = (lid, 'ab')
        link_index[(b, a)] = (lid, 'ba')
    path = [nodes[f'trx R{seq[0]}'], nodes[f'roadm R{seq[0]}']]
    hops = []
    for a, b in zip(seq[:-1], seq[1:]):
        key = link_index[(a, b)]
        hops.append(key)
        cur = nodes[f'roadm R{a}']
        nxt = [s for s in network.successors(cur) if netgen.link_of(s.uid) == key]
        if len(nxt) != 1:
            raise RuntimeError(f'harness: cannot follow link {key} from roadm R{a}')
        cur = nxt[0]
        guard = 0
        while not isinstance(cur, Roadm):
            path.append(cur)
            cur = next(iter(network.successors(cur)))
            guard += 1
            if guard > 200:
                raise RuntimeError('harness: loop while walking a link')
        path.append(cur)
    path.append(nodes[f'trx R{seq[-1]}'])
    return path, hops


def _service_json(rid, r):
    te = {'technology': 'flexi-grid', 'trx_type': 'T0', 'trx_mode': r['mode'] if r['loader'] == 'mode' else None,
          'spacing': r['spacing'], 'max-nb-of-channel': None, 'output-power': None, 'path_bandwidth': r['bw']}
    if not r['omit_slots']:
        te['effective-freq-slot'] = [{'N': n, 'M': m} for n, m in r['slots']]
    return {'path-request': [{'request-id': rid, 'source': f'trx R{r["src"]}', 'destination': f'trx R{r["dst"]}',
                              'src-tp-id': f'trx R{r["src"]}', 'dst-tp-id': f'trx R{r["dst"]}', 'bidirectional': r['rev'],
                              'path-constraints': {'te-bandwidth': te}}]}


def _fill_mode(rq, equipment, mode_name):
    """what compute_path_with_disjunction does once propagate_and_optimize_mode has picked a mode"""
    mode = next(m for m in equipment['Transceiver']['T0'].mode if m['format'] == mode_name)
    rq.baud_rate = mode['baud_rate']
    rq.tsp_mode = mode['format']
    rq.format = mode['format']
    rq.OSNR = mode['OSNR']
    rq.tx_osnr = mode['tx_osnr']
    rq.bit_rate = mode['bit_rate']
    rq.penalties = mode.get('penalties')
    rq.offset_db = mode.get('equalization_offset_db', 0)


def _lowest_start(allowed, m):
    """lowest s with [s, s + 2m - 1] inside `allowed` (brute force), or None"""
    width = 2 * m
    for s in sorted(allowed):
        if all((s + j) in allowed for j in range(width)):
            return s
    return None


def _match(entries, result, require_fixed_m):
    """order-preserving injection result -> entries agreeing on every user-fixed value; optionally every entry with a
    user-fixed M must be hit"""
    ne, nr = len(entries), len(result)

    def rec(i, j):
        if j == nr:
            return not require_fixed_m or all(entries[k][1] is None for k in range(i, ne))
        if i == ne:
            return False
        n, m = entries[i]
        big_n, big_m = result[j]
        if (n is None or n == big_n) and (m is None or m == big_m) and rec(i + 1, j + 1):
            return True
        if require_fixed_m and m is not None:
            return False
        return rec(i + 1, j)
    return rec(0, 0)


# ------------------------------------------------------------------------------------------------ the check

class _Model:
    def __init__(self, oms_list, ctx, guard_slots=GUARD_SLOTS):
        from gnpy.topology.spectrum_assignment import BitmapValue
        self.BV = BitmapValue
        self.key_of = {}         # oms index -> (link, dir)
        self.idx_of = {}         # (link, dir) -> oms index
        self.initial = []        # per oms: dict n -> BitmapValue
        self.occ = []
        ext = set()
        for i, o in enumerate(oms_list):
            keys = {netgen.link_of(u) for u in o.el_id_list[1:-1]}
            if len(keys) != 1 or None in keys:
                raise RuntimeError(f'harness: OMS {i} does not map to one generated link: {o.el_id_list}')
            key = keys.pop()
            self.key_of[i] = key
            self.idx_of[key] = i
            bm = o.spectrum_bitmap
            if len(bm.freq_index) != len(bm.bitmap) or bm.freq_index != list(range(bm.n_min, bm.n_max + 1)):
                ctx.violation('setup:initial-map-inconsistent', f'oms {i} n_min={bm.n_min} n_max={bm.n_max} '
                              f'len(index)={len(bm.freq_index)} len(bitmap)={len(bm.bitmap)}')
            self.initial.append(dict(zip(bm.freq_index, bm.bitmap)))
            self.occ.append(set())
            ext.add((bm.n_min, bm.n_max))
        if len(ext) != 1:
            ctx.violation('setup:maps-of-different-extent', str(sorted(ext)))
        self.n_min, self.n_max = sorted(ext)[0]
        self.g_lo, self.g_hi = self.n_min + guard_slots, self.n_max - guard_slots

    def usable(self, i):
        return {n for n, v in self.initial[i].items() if v is self.BV.FREE}

    def allowed(self, oms_ids):
        """slots a new service may use on all these OMS"""
        sets = [self.usable(i) - self.occ[i] for i in oms_ids]
        a = set.intersection(*sets) if sets else set()
        return {n for n in a if self.g_lo <= n <= self.g_hi}

    def compare(self, oms_list, occ=None):
        """list of (oms index, n, expected, got) where the real map differs from the model"""
        occ = self.occ if occ is None else occ
        diffs = []
        for i, o in enumerate(oms_list):
            bm = o.spectrum_bitmap
            if len(bm.freq_index) != len(bm.bitmap) or bm.freq_index != list(range(self.n_min, self.n_max + 1)):
                diffs.append((i, None, 'same index as before', f'index {bm.freq_index[:3]}..{bm.freq_index[-3:]} '
                                                               f'len {len(bm.freq_index)}/{len(bm.bitmap)}'))
                continue
            for n, got in zip(bm.freq_index, bm.bitmap):
                exp = self.BV.OCCUPIED if n in occ[i] else self.initial[i][n]
                if got is not exp:
                    diffs.append((i, n, exp.name, got.name))
        return diffs


def _judge_request(r, rq, was_preblocked, oms_ids, model, ctx, tag):
    """all per-request clauses of the statement; updates the model when accepted. Returns 'accepted'|'blocked'|..."""
    bit_rate, _ = MODES[r['mode']]
    per_m = _per_m(r['spacing'])
    nb_wl = math.ceil(r['bw'] / bit_rate)
    required_m = per_m * nb_wl
    entries = [(None, None)] if r['omit_slots'] else [tuple(s) for s in r['slots']]
    allowed = model.allowed(oms_ids)
    single = len(entries) == 1
    reason = getattr(rq, 'blocking_reason', None)

    def feasible_single():
        n, m = entries[0]
        if m is not None and m // per_m < nb_wl:
            return False
        width_m = m if m is not None else required_m
        if n is None:
            return _lowest_start(allowed, width_m) is not None
        return all(k in allowed for k in range(n - width_m, n + width_m))

    if was_preblocked:
        if rq.N is not None or rq.M is not None:
            ctx.violation('preblocked:N-M-not-None', f'{tag} N={rq.N} M={rq.M}')
        ctx.label('req:preblocked')
        return 'blocked'
    if reason is not None:
        ctx.label(f'req:blocked:{reason}')
        if reason not in ('NO_SPECTRUM', 'NOT_ENOUGH_RESERVED_SPECTRUM'):
            ctx.violation('blocked:unexpected-reason', f'{tag} {reason}')
        if rq.N is not None or rq.M is not None:
            ctx.violation('blocked:N-M-not-None', f'{tag} N={rq.N} M={rq.M} reason={reason}')
        if single:
            ctx.label('completeness:judged')
            if feasible_single():
                ctx.violation('blocked:although-feasible:single-slot',
                              f'{tag} slots={entries} nb_wl={nb_wl} per_m={per_m} reason={reason}: the model finds room '
                              f'(lowest start {_lowest_start(allowed, entries[0][1] or required_m)})')
        return 'blocked'
    # ---- accepted
    ctx.label('req:accepted')
    big_n, big_m = rq.N, rq.M
    if (not isinstance(big_n, list) or not isinstance(big_m, list) or len(big_n) != len(big_m) or not big_n
            or any(type(x) is not int for x in big_n + big_m) or any(m <= 0 for m in big_m)):
        ctx.violation('accepted:malformed-N-M', f'{tag} N={big_n} M={big_m} (request {entries}, nb_wl={nb_wl})')
        return 'accepted'
    result = list(zip(big_n, big_m))
    ranges = [set(range(n - m, n + m)) for n, m in result]
    for a in range(len(ranges)):
        for b in range(a + 1, len(ranges)):
            if ranges[a] & ranges[b]:
                ctx.violation('accepted:own-slots-overlap', f'{tag} N={big_n} M={big_m}')
    union = set().union(*ranges)
    for i in oms_ids:
        clash = union & model.occ[i]
        if clash:
            ctx.violation('accepted:overlaps-occupied', f'{tag} N={big_n} M={big_m} oms {i} {model.key_of[i]} '
                          f'already occupied: {sorted(clash)[:6]}')
        outside = {n for n in union if model.initial[i].get(n) is not model.BV.FREE}
        if outside:
            ctx.violation('accepted:outside-usable-band', f'{tag} N={big_n} M={big_m} oms {i} {model.key_of[i]} '
                          f'slots not usable there: {sorted(outside)[:6]}')
    out_guard = {n for n in union if not model.g_lo <= n <= model.g_hi}
    if out_guard:
        ctx.violation('accepted:inside-guard-band', f'{tag} N={big_n} M={big_m} allowed [{model.g_lo},{model.g_hi}] '
                      f'got {sorted(out_guard)[:6]}')
    dropped = False
    if not _match(entries, result, True):
        if _match(entries, result, False):
            dropped = True
            ctx.violation('accepted:fixed-slot-dropped',
                          f'{tag} requested {entries} (nb_wl={nb_wl}, per_m={per_m}) got N={big_n} M={big_m}: a slot with '
                          'user-fixed M is neither used nor is the request blocked')
        else:
            ctx.violation('accepted:fixed-N-M-not-honoured', f'{tag} requested {entries} got N={big_n} M={big_m}')
    if sum(m // per_m for m in big_m) < nb_wl and not dropped:
        # (when a user-fixed slot was dropped the shortage is a consequence already reported above)
        shape = 'all-M-user-fixed' if all(m is not None for _, m in entries) else 'free-M-entry-takes-the-leftover'
        ctx.violation(f'accepted:not-enough-slots-for-bandwidth:{shape}',
                      f'{tag} requested {entries} got N={big_n} M={big_m} per-channel M={per_m}, {nb_wl} wavelengths needed')
    if single:
        n, m = entries[0]
        if n is None and len(result) == 1:
            ctx.label('firstfit:judged')
            exp = _lowest_start(allowed, big_m[0])
            if exp is not None and big_n[0] - big_m[0] != exp:
                ctx.violation('accepted:not-first-fit', f'{tag} requested {entries} got N={big_n} M={big_m} (start '
                              f'{big_n[0] - big_m[0]}), lowest feasible start for this M is {exp}')
    else:
        ctx.label('firstfit:not-judged-multislot')
    for i in oms_ids:
        model.occ[i] |= union
    return 'accepted'


def run(case, ctx):
    from gnpy.core.exceptions import ServiceError, SpectrumError
    from gnpy.tools.worker_utils import designed_network
    from gnpy.tools.json_io import requests_from_json
    from gnpy.topology.spectrum_assignment import build_oms_list, pth_assign_spectrum
    from gnpy.topology.request import find_reversed_path

    netgen.reset_sim_params()
    try:
        eq_json = bandnets.library(case['edges'], 'C', False, spacing=case['spacing_si'])
        equipment, network = netgen.build_network(eq_json, case['topo'])
        try:
            designed_network(equipment, network)
        except Exception:  # noqa  design is owned by C08
            ctx.label('skipped:design-failed')
            return
        try:
            oms_list = build_oms_list(network, equipment)
        except SpectrumError:
            ctx.label('skipped:oms-build-failed')     # owned by C15
            return
        nodes = {n.uid: n for n in network.nodes()}
        truth = case['truth']
        guard_slots = case.get('guard_slots', GUARD_SLOTS)
        if guard_slots != GUARD_SLOTS:
            from gnpy.topology.spectrum_assignment import nvalue_to_frequency
            for o in oms_list:
                bm = o.spectrum_bitmap
                o.update_spectrum(nvalue_to_frequency(bm.n_min), nvalue_to_frequency(bm.n_max),
                                  guardband=guard_slots * 6.25e9, existing_spectrum=list(bm.bitmap))
            ctx.label(f'guard-band:{guard_slots}-slots')
        model = _Model(oms_list, ctx, guard_slots)
        if ctx.violations:
            return
        usable_sizes = {len(model.usable(i)) for i in range(len(oms_list))}
        ctx.label('net:uniform-band' if len(usable_sizes) == 1 else 'net:mixed-bands')
        accepted_on = set()          # oms indices carrying at least one accepted service
        nontrivial = False
        rid = 0
        for s_no, step in enumerate(case['steps']):
            if 'pre' in step:
                p = step['pre']
                i = model.idx_of[(p['link'], p['dir'])]
                rng = set(range(p['N'] - p['M'], p['N'] + p['M']))
                try:
                    oms_list[i].assign_spectrum(p['N'], p['M'])
                except SpectrumError:
                    ctx.label('pre:rejected')
                    if model.n_min < min(rng) and max(rng) <= model.n_max and model.g_lo <= p['N'] <= model.g_hi:
                        ctx.violation('pre-occupy:rejected-inside-map', f'step {s_no} {p} map [{model.n_min},{model.n_max}]')
                else:
                    ctx.label('pre:done')
                    if not rng <= set(model.initial[i]):
                        ctx.violation('pre-occupy:accepted-outside-map', f'step {s_no} {p} map [{model.n_min},{model.n_max}]')
                    model.occ[i] |= rng & set(model.initial[i])
                    accepted_on.add(i)
                diffs = model.compare(oms_list)
                if diffs:
                    ctx.violation('pre-occupy:map-differs-from-model', f'step {s_no} {p}: {diffs[:5]}')
                    return
                continue
            # ---- one pth_assign_spectrum call
            pths, rqs, rpths, metas = [], [], [], []
            for r in step['reqs']:
                rid += 1
                if not r.get('far', True) and any(n is not None and not model.n_min <= n <= model.n_max for n, _ in r['slots']):
                    # a user-fixed N outside the common map is the shape of a recorded finding: it is only fed on
                    # purpose ('far', never in the strict sub-check); N drawn around the generated band edges are
                    # moved into the map (its extent depends on the amplifiers auto-design picked)
                    r = dict(r, slots=[[n if n is None else min(max(n, model.n_min), model.n_max), m]
                                       for n, m in r['slots']])
                    ctx.label('excluded_known:fixed-N-outside-map-clamped')
                try:
                    rq = requests_from_json(_service_json(str(rid), copy.deepcopy(r)), equipment)[0]
                except ServiceError:
                    ctx.label('req:rejected-by-loader')
                    continue
                if r['loader'] == 'open':
                    _fill_mode(rq, equipment, r['mode'])
                routes = _roadm_routes(truth, r['src'], r['dst'])
                seq = routes[r['route'] % len(routes)]
                path, hops = _element_path(network, nodes, truth, seq)
                if case['strict'] and len(hops) == 1 and not r['rev']:
                    # one-OMS path without reverse path: shape of a recorded finding, excluded in the strict sub-check
                    r = dict(r, rev=True)
                    ctx.label('excluded_known:one-hop-unidirectional-made-bidirectional')
                rpath = find_reversed_path(path) if r['rev'] else []
                keys = {netgen.link_of(e.uid) for e in path + rpath} - {None}
                oms_ids = sorted(model.idx_of[k] for k in keys)
                if r['rev']:
                    want = set(hops) | {(l, 'ba' if d == 'ab' else 'ab') for l, d in hops}
                    if keys != want:
                        ctx.violation('reverse-path:not-the-opposite-direction', f'forward hops {hops}, got {sorted(keys)}')
                if r['preblocked']:
                    rq.blocking_reason = 'MODE_NOT_FEASIBLE'
                pths.append(path)
                rqs.append(rq)
                rpths.append(rpath)
                metas.append((r, oms_ids, len(hops)))
                ctx.label('path:one-oms' if len(oms_ids) == 1 else ('path:two-oms' if len(oms_ids) == 2 else 'path:many-oms'),
                          'rev:yes' if r['rev'] else 'rev:none', f'loader:{r["loader"]}',
                          'slots:single' if len(r['slots']) == 1 else 'slots:multi')
                for n, m in r['slots']:
                    ctx.label(f'slot:{"N" if n is not None else "-"}{"M" if m is not None else "-"}')
            if not rqs:
                continue
            if 'edge' in step:
                r0, ids0, _ = metas[0]
                bit_rate, _ = MODES[r0['mode']]
                m_need = r0['slots'][0][1] or _per_m(r0['spacing']) * math.ceil(r0['bw'] / bit_rate)
                width = 2 * m_need + step['edge']['delta']
                allowed = model.allowed(ids0)
                fill = None
                if allowed and step['edge']['side'] == 'top':
                    a = model.n_min + 1
                    end = max(allowed) - width            # last slot to occupy
                    if (end - a + 1) % 2:
                        a += 1
                    fill = (a, end)
                elif allowed:
                    b = model.n_max
                    start = min(allowed) + width          # first slot to occupy
                    if (b - start + 1) % 2:
                        b -= 1
                    fill = (start, b)
                if fill and not model.g_lo <= fill[0] + (fill[1] - fill[0] + 1) // 2 <= model.g_hi:
                    fill = None     # OMS.assign_spectrum only takes a centre inside the guard bands (wide guard band, narrow fill)
                if fill and fill[1] - fill[0] + 1 >= 16:
                    m_fill = (fill[1] - fill[0] + 1) // 2
                    for i in ids0:
                        oms_list[i].assign_spectrum(fill[0] + m_fill, m_fill)
                        model.occ[i] |= set(range(fill[0], fill[1] + 1))
                        accepted_on.add(i)
                    diffs = model.compare(oms_list)
                    if diffs:
                        ctx.violation('pre-occupy:map-differs-from-model', f'step {s_no} fill {fill}: {diffs[:5]}')
                        return
                    ctx.label(f'edge:{step["edge"]["side"]}:delta{step["edge"]["delta"]:+d}')
                else:
                    ctx.label('edge:skipped-no-room')
            ctx.label('call:batch' if len(rqs) > 1 else 'call:single')
            try:
                pth_assign_spectrum(pths, rqs, oms_list, rpths)
            except ValueError as e:
                outside = [m[0]['slots'] for m in metas
                           if any(n is not None and not model.n_min <= n <= model.n_max for n, _ in m[0]['slots'])]
                if 'is not in list' in str(e) and outside:
                    ctx.violation('exception:ValueError:user-fixed-N-outside-the-spectrum-map',
                                  f'step {s_no}: {e}; map {model.n_min}..{model.n_max}, request slots {outside[:2]}')
                    return
                raise
            except SpectrumError as e:
                over = []
                for m in metas:
                    need = _per_m(m[0]['spacing']) * math.ceil(m[0]['bw'] / MODES[m[0]['mode']][0])
                    fixed = sum(x for _, x in m[0]['slots'] if x is not None)
                    if fixed > need and any(n is None and x is None for n, x in m[0]['slots']):
                        over.append((m[0]['slots'], need))
                if 'M must be positive' in str(e) and over:
                    ctx.violation('exception:SpectrumError:free-slot-after-fixed-M-exceeding-the-need',
                                  f'step {s_no}: {e}; (slots, slots needed for the bandwidth) = {over[:2]}')
                    return
                raise
            # pass 1 - state: the maps must equal the previous state + the slots of the requests reported as accepted,
            # on every OMS of their path and reverse path (a blocked request contributes nothing). Judged first: once
            # the state is wrong, later requests of the same call are served from a wrong state.
            outcomes = ['blocked' if (m[0]['preblocked'] or getattr(q, 'blocking_reason', None) is not None) else 'accepted'
                        for q, m in zip(rqs, metas)]
            tentative = [set(x) for x in model.occ]
            for q, m, o in zip(rqs, metas, outcomes):
                if o == 'accepted' and isinstance(q.N, list) and isinstance(q.M, list) and len(q.N) == len(q.M) \
                        and all(type(x) is int for x in q.N + q.M):
                    for n, w in zip(q.N, q.M):
                        for i in m[1]:
                            tentative[i] |= set(range(n - w, n + w))
            diffs = model.compare(oms_list, tentative)
            if diffs:
                touched = {d[0] for d in diffs}
                extra_only = all(d[3] == 'OCCUPIED' for d in diffs)
                culprits = [m for m, o in zip(metas, outcomes)
                            if o == 'blocked' and not m[0]['preblocked'] and set(m[1]) & touched]
                what = f'step {s_no} outcomes {outcomes} requests {[m[0]["slots"] for m in metas]} ' \
                       f'first differences (oms, n, expected, got): {[(model.key_of[d[0]],) + d[1:] for d in diffs[:6]]}'
                if extra_only and culprits:
                    # slots became occupied on an OMS that only blocked request(s) of this call could have touched,
                    # or that no accepted request accounts for
                    aliased = any(len(m[1]) == 1 and not m[0]['rev'] for m in culprits)
                    ctx.violation('blocked:spectrum-changed:'
                                  + ('single-oms-path-no-reverse' if aliased else 'other-path'), what)
                else:
                    ctx.violation('state:occupancy-differs-from-union-of-accepted:'
                                  + ('slots-occupied-without-service' if extra_only else 'accepted-slots-not-recorded'), what)
                return      # the model no longer mirrors the real state
            # pass 2 - every request against the model, in the order of the call
            outcomes = []
            for rq, (r, oms_ids, n_hops) in zip(rqs, metas):
                tag = f'step {s_no} request {rq.request_id} oms {[model.key_of[i] for i in oms_ids]}'
                shared_before = bool(set(oms_ids) & accepted_on)
                out = _judge_request(r, rq, r['preblocked'], oms_ids, model, ctx, tag)
                outcomes.append(out)
                multi = len(r['slots']) > 1
                if out == 'accepted':
                    accepted_on.update(oms_ids)
                    if multi:
                        nontrivial = True
                        ctx.label('multi-slot:accepted')
                elif not r['preblocked']:
                    if multi:
                        nontrivial = True
                        ctx.label('multi-slot:blocked')
                    if shared_before:
                        nontrivial = True
                        ctx.label('blocked-after-accepted-on-shared-oms')
            if not ctx.violations and model.compare(oms_list):
                raise RuntimeError('harness: model and tentative state disagree')
        ctx.nontrivial(nontrivial)
    finally:
        netgen.reset_sim_params()


CHECKS = [
    Check('history', history_case(True), run, quick=900, thorough=30000,
          doc='histories; generator avoids by construction the input shapes of the recorded findings'),
    Check('history-any', history_case(False), run, quick=900, thorough=30000,
          doc='histories without exclusions (rediscovers the recorded findings)'),
]
FLOORS = {
    'history:req:accepted': (0.5, 'history'),
    'history:req:blocked:NO_SPECTRUM': (0.2, 'history'),
    'history:multi-slot:blocked': (0.05, 'history'),
    'history-any:path:one-oms': (0.05, 'history-any'),
}
