"""C15 — every designed network yields a consistent OMS partition and spectrum map (DESIGN §3 C15).

Sub-checks
  oms-map       generated ROADM meshes whose OMS differ in amplifier bands (full C, two reduced-C models, C+L multiband
                typed / with per-band list / untyped with per-degree design bands, reduced constituents; or an all-L
                network with full and reduced L models), real auto-design, real build_oms_list. The generator keeps, by
                construction, the top edge of the last band of every OMS equal to the network-wide maximum and gives
                every OMS a common band (the two input shapes of the recorded findings), so the search continues
                behind them.
  oms-map-any   the same without exclusions: amplifier models with a lowered f_max, L-only links inside a C network,
                an L booster without a matching design band, and the shipped multiband example
                (gnpy/example-data/eqpt_config_multiband.json + multiband_example_network.json) as explicit seed.
  align         2-6 Bitmaps of different extents with random FREE/OCCUPIED/UNUSABLE content through align_grids, and
                sequences of Bitmap.insert_left / insert_right on one Bitmap.
  slot-arith    frequency <-> slot-index helpers (round trips and closed forms).

Oracle (independent of the code under test): OMS are re-derived by walking the designed graph; the opposite direction
is the ground truth encoded in the generated uids (netgen.link_of); amplifier bands come from the library JSON through
the element's final type_variety (per-band children of a multiband amplifier), intersected with own interval
arithmetic; slot n has centre 193.1 THz + n * 6.25 GHz.
"""
import json
from pathlib import Path

from hypothesis import strategies as st

from pbt.runner import Check
from pbt.gens import netgen, bandnets

PROPERTY = 'C15'
RULE = ('oms-map / oms-map-any: Hypothesis-generated ROADM mesh (2-4 sites, 1-3 spans per direction, optional fused '
        'junctions), band class per link direction drawn from auto / C / Cred / Cred2 / Cshort / L / Lred / CL / CLred / '
        'CLauto / Lnodb with generated band edges (on-grid and off-grid), user amplifiers at booster, in-line, preamp or '
        'all positions, rest auto-designed; real designed_network + build_oms_list (oms-map-any adds the shipped multiband '
        'example). Non-trivial = >=2 OMS with different usable slot sets. align: 2-6 maps with extents drawn around a '
        'common base, random content; non-trivial = at least one map grows on the left and one on the right (or an '
        'insert sequence with both). slot-arith: N in [-3000, 3000], M in [1, 600]. distinct = sha1 of the case JSON.')
ASSUMPTIONS = [
    'slots whose centre is within 2.5 slot widths of a band edge are not judged (edge rounding is not specified)',
    'band of an amplifier = f_min/f_max of its library entry (default 191.275-196.125 THz when absent); a multiband '
    'amplifier has the bands of its per-band amplifiers',
    'an OMS without amplifier uses the SI band (documented in find_elements_common_range)',
    'design failures are owned by C08: labelled skipped:design-failed',
    'a fresh map has no occupancy: a slot outside the common bands must be UNUSABLE, inside FREE',
]

GRID = 6.25e9
F0 = 193.1e12
EDGE_TOL = 2.5 * GRID
EXAMPLE_DIR = Path('/repo/gnpy/example-data')

# ------------------------------------------------------------------------------------------------ generators

_RESTRICTED = [['auto', 'C', 'Cred'], ['auto', 'Cred', 'Cred2'], ['C', 'Cred', 'Cred2', 'CL'], ['auto', 'CL', 'CLred'],
               ['CL', 'CLred', 'CLauto'], ['auto', 'C', 'Cred', 'Cred2', 'CL', 'CLred', 'CLauto'], ['Cred', 'CLauto']]
_ALL_L = [['auto', 'L', 'Lred'], ['L', 'Lred']]
_ANY = [['auto', 'Cshort'], ['C', 'Cred', 'Cshort'], ['auto', 'L'], ['C', 'L', 'Lred'], ['CL', 'L'], ['CL', 'CLred', 'Cshort'],
        ['auto', 'C', 'Cred', 'Cred2', 'Cshort', 'L', 'Lred', 'CL', 'CLred', 'CLauto'], ['auto', 'Lnodb'], ['CL', 'Lnodb']]


@st.composite
def net_case(draw, restricted):
    if restricted:
        all_l = draw(st.integers(0, 4)) == 0
        classes = draw(st.sampled_from(_ALL_L if all_l else _RESTRICTED))
        edges = draw(bandnets.band_edges(same_fmax=True))
        si = 'L' if all_l else 'C'
    else:
        classes = draw(st.sampled_from(_ANY))
        edges = draw(bandnets.band_edges(same_fmax=draw(st.booleans())))
        si = 'C'
    topo, truth = draw(bandnets.band_topology(classes, edges, n=(2, 4), extra_max=2, oneway=True))
    return {'kind': 'generated', 'edges': edges, 'si': si, 'design_reduced': draw(st.booleans()), 'topo': topo,
            'truth': truth, 'classes': classes}


def net_case_any():
    return st.integers(0, 40).flatmap(lambda k: st.just({'kind': 'shipped', 'name': 'multiband_example'}) if k == 0
                                      else net_case(False))


_cell = st.sampled_from(['f', 'f', 'o', 'u'])


@st.composite
def align_case(draw):
    base = draw(st.sampled_from([0, -300, 300, -1050, 480, -8, 5]))
    maps = []
    for _ in range(draw(st.integers(2, 6))):
        lo = base + draw(st.integers(-40, 40))
        size = draw(st.integers(1, 60))
        maps.append({'lo': lo, 'hi': lo + size - 1, 'cells': ''.join(draw(st.lists(_cell, min_size=size, max_size=size)))})
    ops = []
    for _ in range(draw(st.integers(0, 5))):
        k = draw(st.integers(0, 12))
        ops.append([draw(st.sampled_from(['L', 'R'])), ''.join(draw(st.lists(st.sampled_from(['o', 'u', 'o', 'f']),
                                                                              min_size=k, max_size=k)))])
    return {'maps': maps, 'ops': ops}


@st.composite
def arith_case(draw):
    return {'N': draw(st.integers(-3000, 3000)), 'M': draw(st.integers(1, 600)),
            'grid': draw(st.sampled_from([6.25e9, 6.25e9, 12.5e9, 50e9, 100e9]))}


# ------------------------------------------------------------------------------------------------ band truth

def _intersect(a, b):
    out = []
    for lo1, hi1 in a:
        for lo2, hi2 in b:
            lo, hi = max(lo1, lo2), min(hi1, hi2)
            if lo < hi:
                out.append((lo, hi))
    return sorted(out)


def _band_table(eq_json):
    return bandnets.entry_bands([e for e in eq_json['Edfa'] if e['type_def'] != 'dual_stage'])


def _amp_bands(node, table):
    """ground-truth bands of a designed amplifier element, or None when they cannot be told from the library JSON"""
    from gnpy.core.elements import Multiband_amplifier
    if isinstance(node, Multiband_amplifier):
        kids = [a.type_variety for a in node.amplifiers.values()]
        if kids and all(k in table for k in kids):
            return sorted({table[k][0] for k in kids})
        return sorted(set(table[node.type_variety])) if node.type_variety in table else None
    return list(table[node.type_variety]) if node.type_variety in table else None


def _walk_oms(network):
    """own derivation of the OMS: every (ROADM -> non-transceiver successor) edge, followed to the next ROADM"""
    from gnpy.core.elements import Roadm, Transceiver
    out = []
    for node in network.nodes():
        if not isinstance(node, Roadm):
            continue
        for nxt in network.successors(node):
            if isinstance(nxt, Transceiver):
                continue
            seq = [node]
            cur = nxt
            while not isinstance(cur, Roadm):
                seq.append(cur)
                succ = list(network.successors(cur))
                if len(succ) != 1 or len(seq) > 500:
                    raise RuntimeError(f'harness: line element {cur.uid} has {len(succ)} successors')
                cur = succ[0]
            seq.append(cur)
            out.append(seq)
    return out


def _n_of(f):
    """index of the slot whose centre is nearest to f (own arithmetic)"""
    return int(round((f - F0) / GRID))


# ------------------------------------------------------------------------------------------------ oms-map

def _load_case(case):
    """(equipment, network, eq_json, generated?)"""
    if case['kind'] == 'shipped':
        from gnpy.tools.json_io import load_equipment, load_network
        eq_json = json.loads((EXAMPLE_DIR / 'eqpt_config_multiband.json').read_text())
        equipment = load_equipment(EXAMPLE_DIR / 'eqpt_config_multiband.json')
        network = load_network(EXAMPLE_DIR / 'multiband_example_network.json', equipment)
        return equipment, network, eq_json, False
    eq_json = bandnets.library(case['edges'], case['si'], case['design_reduced'])
    equipment, network = netgen.build_network(eq_json, case['topo'])
    return equipment, network, eq_json, True


def run_net(case, ctx):
    from gnpy.core.elements import Roadm, Transceiver, Edfa, Multiband_amplifier
    from gnpy.core.exceptions import SpectrumError
    from gnpy.tools.worker_utils import designed_network
    from gnpy.topology.spectrum_assignment import build_oms_list, BitmapValue

    netgen.reset_sim_params()
    try:
        equipment, network, eq_json, generated = _load_case(case)
        ctx.label('case:generated' if generated else 'case:shipped-multiband-example')
        try:
            designed_network(equipment, network)
        except Exception:  # noqa  design is owned by C08
            ctx.label('skipped:design-failed')
            return
        table = _band_table(eq_json)
        si = eq_json['SI'][0]
        walked = _walk_oms(network)
        # ---- model: common bands per OMS, network-wide range
        model = []
        all_bands = []
        unknown = False
        for seq in walked:
            amps = [e for e in seq[1:-1] if isinstance(e, (Edfa, Multiband_amplifier))]
            bands = [(si['f_min'], si['f_max'])] if not amps else None
            for a in amps:
                b = _amp_bands(a, table)
                if b is None:
                    unknown = True
                    break
                all_bands.extend(b)
                bands = b if bands is None else _intersect(bands, b)
            model.append(bands)
        if unknown or not all_bands:
            ctx.label('skipped:amplifier-band-unknown')
            return
        net_lo, net_hi = min(b[0] for b in all_bands), max(b[1] for b in all_bands)
        no_common = [i for i, b in enumerate(model) if not b]
        short = [i for i, b in enumerate(model) if b and int((b[-1][1] - F0) / GRID) < int((net_hi - F0) / GRID)]
        for b in model:
            ctx.label('oms:no-common-band' if not b else ('oms:two-bands' if len(b) > 1 else 'oms:one-band'))
        ctx.label('net:some-oms-ends-below-network-fmax' if short else 'net:all-oms-end-at-network-fmax')
        # ---- the call
        try:
            oms_list = build_oms_list(network, equipment)
        except SpectrumError as e:
            if 'not consistant' in str(e) and short:
                ctx.violation('build_oms_list:SpectrumError:oms-last-band-ends-below-network-fmax',
                              f'{e}; OMS {[walked[i][1].uid for i in short[:3]]} has common bands '
                              f'{[model[i] for i in short[:3]]}, network range [{net_lo}, {net_hi}]')
            else:
                ctx.violation('build_oms_list:SpectrumError:unpredicted', f'{e}; bands per OMS {model[:6]}')
            return
        except IndexError as e:
            if no_common:
                ctx.violation('build_oms_list:IndexError:oms-without-common-band',
                              f'{e}; OMS {[walked[i][1].uid for i in no_common[:3]]} amplifiers '
                              f'{[[(a.uid, a.type_variety) for a in walked[i][1:-1] if isinstance(a, (Edfa, Multiband_amplifier))] for i in no_common[:2]]}')
                return
            raise
        # ---- partition
        if len(oms_list) != len(walked):
            ctx.violation('partition:number-of-oms', f'{len(oms_list)} OMS for {len(walked)} ROADM egress degrees')
        by_first = {}
        for o in oms_list:
            by_first.setdefault((o.el_list[0].uid, o.el_list[1].uid if len(o.el_list) > 1 else None), []).append(o)
        count = {}
        for idx, o in enumerate(oms_list):
            els = o.el_list
            if o.oms_id != idx:
                ctx.violation('partition:oms_id-not-position', f'oms_list[{idx}].oms_id = {o.oms_id}')
            if [e.uid for e in els] != list(o.el_id_list):
                ctx.violation('partition:el_id_list-differs-from-el_list', f'oms {idx}')
            if len(els) < 3 or not isinstance(els[0], Roadm) or not isinstance(els[-1], Roadm) or \
                    any(isinstance(e, (Roadm, Transceiver)) for e in els[1:-1]):
                ctx.violation('partition:oms-not-roadm-to-roadm', f'oms {idx}: {[e.uid for e in els]}')
                continue
            for a, b in zip(els[:-1], els[1:]):
                if not network.has_edge(a, b):
                    ctx.violation('partition:oms-elements-not-connected', f'oms {idx}: {a.uid} -> {b.uid} is not an edge')
            for e in els[1:-1]:
                count[e.uid] = count.get(e.uid, 0) + 1
                if getattr(e, 'oms', None) is not o or getattr(e, 'oms_id', None) != idx:
                    ctx.violation('partition:element-annotation', f'{e.uid}.oms_id = {getattr(e, "oms_id", None)} but it is '
                                  f'listed in oms {idx}')
        for n in network.nodes():
            if not isinstance(n, (Roadm, Transceiver)) and count.get(n.uid, 0) != 1:
                ctx.violation('partition:line-element-not-in-exactly-one-oms', f'{n.uid} listed in {count.get(n.uid, 0)} OMS')
        # same OMS as the own walk
        mine = {tuple(e.uid for e in seq): i for i, seq in enumerate(walked)}
        pos = {}
        for idx, o in enumerate(oms_list):
            key = tuple(e.uid for e in o.el_list)
            if key not in mine:
                ctx.violation('partition:oms-differs-from-graph-walk', f'oms {idx}: {list(key)}')
            else:
                pos[idx] = mine[key]
        if ctx.violations:
            return
        # ---- opposite direction
        def endpoints(o):
            return o.el_list[0].uid, o.el_list[-1].uid
        for idx, o in enumerate(oms_list):
            rev = getattr(o, 'reversed_oms', None)
            if generated:
                keys = {netgen.link_of(u) for u in o.el_id_list[1:-1]}
                if len(keys) != 1 or None in keys:
                    raise RuntimeError(f'harness: oms {idx} mixes links {keys}')
                lid, d = keys.pop()
                want = (lid, 'ba' if d == 'ab' else 'ab')
                got = None if rev is None else {netgen.link_of(u) for u in rev.el_id_list[1:-1]}
                if lid in case['truth'].get('oneway', []):
                    ctx.label('link-equipped-in-one-direction-only')
                    if rev is not None:
                        ctx.violation('reversed_oms:one-way-link-paired', f'oms {idx} is link {lid} {d}, which has no opposite '
                                                                          f'direction; reversed_oms covers {got}')
                elif got != {want}:
                    ctx.violation('reversed_oms:not-the-opposite-direction-of-the-same-link',
                                  f'oms {idx} is link {lid} {d}; reversed_oms covers {got}')
            else:
                if rev is None or endpoints(rev) != endpoints(o)[::-1]:
                    ctx.violation('reversed_oms:end-points', f'oms {idx} {endpoints(o)} reversed {rev and endpoints(rev)}')
            if rev is not None and getattr(rev, 'reversed_oms', None) is not o:
                ctx.violation('reversed_oms:not-symmetric', f'oms {idx}')
        # ---- maps
        ext = {(o.spectrum_bitmap.n_min, o.spectrum_bitmap.n_max, len(o.spectrum_bitmap.bitmap)) for o in oms_list}
        if len(ext) != 1:
            ctx.violation('map:extent-differs-between-oms', str(sorted(ext)[:4]))
            return
        n_min, n_max, length = next(iter(ext))
        usable_sets = set()
        for idx, o in enumerate(oms_list):
            bm = o.spectrum_bitmap
            if bm.freq_index != list(range(n_min, n_max + 1)) or length != len(bm.freq_index):
                ctx.violation('map:index-not-contiguous', f'oms {idx} n_min={n_min} n_max={n_max} len(bitmap)={length} '
                              f'len(index)={len(bm.freq_index)} head {bm.freq_index[:3]} tail {bm.freq_index[-3:]}')
                continue
            bands = model[pos[idx]]
            bad_free, bad_unus = [], []
            for n, v in zip(bm.freq_index, bm.bitmap):
                f = F0 + n * GRID
                if any(abs(f - lo) <= EDGE_TOL or abs(f - hi) <= EDGE_TOL for lo, hi in bands):
                    continue
                inside = any(lo <= f <= hi for lo, hi in bands)
                if inside and v is not BitmapValue.FREE:
                    bad_free.append((n, v.name))
                elif not inside and v is not BitmapValue.UNUSABLE:
                    bad_unus.append((n, v.name))
            if bad_free:
                ctx.violation('map:slot-inside-common-band-not-free', f'oms {idx} {o.el_id_list[1]} bands {bands}: '
                              f'{len(bad_free)} slots, first {bad_free[:4]} last {bad_free[-2:]}')
            if bad_unus:
                ctx.violation('map:slot-outside-common-band-not-unusable', f'oms {idx} {o.el_id_list[1]} bands {bands}: '
                              f'{len(bad_unus)} slots, first {bad_unus[:4]} last {bad_unus[-2:]}')
            for lo, hi in bands:
                first, last = _n_of(lo + EDGE_TOL) + 1, _n_of(hi - EDGE_TOL) - 1
                if first <= last and (first < n_min or last > n_max):
                    ctx.violation('map:usable-slot-outside-the-map', f'oms {idx} band ({lo}, {hi}) = slots {first}..{last}, '
                                  f'map {n_min}..{n_max}')
            usable_sets.add(tuple(n for n, v in zip(bm.freq_index, bm.bitmap) if v is BitmapValue.FREE))
        ctx.label(f'distinct-usable-layouts:{min(len(usable_sets), 4)}')
        ctx.nontrivial(len(usable_sets) >= 2)
    finally:
        netgen.reset_sim_params()


# ------------------------------------------------------------------------------------------------ align

def _new_oms(i, m):
    from gnpy.topology.spectrum_assignment import OMS, BitmapValue, nvalue_to_frequency
    code = {'f': BitmapValue.FREE, 'o': BitmapValue.OCCUPIED, 'u': BitmapValue.UNUSABLE}
    o = OMS(oms_id=i, el_id_list=[], el_list=[])
    o.update_spectrum(nvalue_to_frequency(m['lo']), nvalue_to_frequency(m['hi']), grid=GRID,
                      existing_spectrum=[code[c] for c in m['cells']])
    return o


def _check_map(ctx, where, bm, lo, hi, before, added_not_free=True, added_exact=None):
    """bm must cover lo..hi, contiguous and unique; `before` (n -> value) preserved; added slots not FREE"""
    from gnpy.topology.spectrum_assignment import BitmapValue
    want = list(range(lo, hi + 1))
    ok = True
    if bm.freq_index != want:
        dup = sorted({n for n in bm.freq_index if bm.freq_index.count(n) > 1})
        missing = sorted(set(want) - set(bm.freq_index))
        ctx.violation(f'{where}:freq_index-not-the-contiguous-range',
                      f'expected {lo}..{hi}; duplicates {dup[:4]}, missing {missing[:4]}, head {bm.freq_index[:3]} '
                      f'tail {bm.freq_index[-4:]}')
        return False          # everything below would only restate the same defect
    if (bm.n_min, bm.n_max) != (lo, hi):
        ctx.violation(f'{where}:n_min-n_max', f'expected ({lo}, {hi}) got ({bm.n_min}, {bm.n_max})')
        ok = False
    if len(bm.bitmap) != hi - lo + 1:
        ctx.violation(f'{where}:bitmap-length', f'expected {hi - lo + 1} got {len(bm.bitmap)}')
        ok = False
    # occupancy read the way every user of the map reads it: position of n in freq_index
    lost = []
    for n, v in before.items():
        if n not in bm.freq_index:
            lost.append((n, v.name, 'absent'))
            continue
        i = bm.freq_index.index(n)
        got = bm.bitmap[i] if i < len(bm.bitmap) else None
        if got is not v:
            lost.append((n, v.name, getattr(got, 'name', None)))
    if lost:
        ctx.violation(f'{where}:existing-occupancy-moved', f'(n, before, after): {lost[:5]}')
        ok = False
    if ok:
        by_n = dict(zip(bm.freq_index, bm.bitmap))
        for n in want:
            if n in before:
                continue
            if added_exact is not None and by_n[n] is not added_exact[n]:
                ctx.violation(f'{where}:inserted-values-misplaced', f'n={n} expected {added_exact[n].name} got {by_n[n].name}')
                break
            if added_not_free and by_n[n] is BitmapValue.FREE:
                ctx.violation(f'{where}:added-slot-is-free', f'n={n}')
                break
    return ok


def run_align(case, ctx):
    from gnpy.topology.spectrum_assignment import align_grids, BitmapValue
    code = {'f': BitmapValue.FREE, 'o': BitmapValue.OCCUPIED, 'u': BitmapValue.UNUSABLE}
    maps = case['maps']
    oms = [_new_oms(i, m) for i, m in enumerate(maps)]
    for o, m in zip(oms, maps):
        bm = o.spectrum_bitmap
        if (bm.n_min, bm.n_max) != (m['lo'], m['hi']) or bm.freq_index != list(range(m['lo'], m['hi'] + 1)):
            ctx.violation('bitmap-construct:index-differs-from-requested-range',
                          f'asked {m["lo"]}..{m["hi"]} got {bm.n_min}..{bm.n_max}')
            return
    before = [dict(zip(o.spectrum_bitmap.freq_index, o.spectrum_bitmap.bitmap)) for o in oms]
    lo, hi = min(m['lo'] for m in maps), max(m['hi'] for m in maps)
    out = align_grids(oms)
    if out is None or len(out) != len(oms) or any(a is not b for a, b in zip(out, oms)):
        ctx.violation('align:returned-list', 'align_grids does not return the aligned OMS list')
        return
    grow_l = grow_r = False
    for o, m, b in zip(oms, maps, before):
        left, right = m['lo'] > lo, m['hi'] < hi
        grow_l |= left
        grow_r |= right
        side = 'left+right' if left and right else ('left' if left else ('right' if right else 'none'))
        ctx.label(f'align:growth:{side}')
        _check_map(ctx, f'align_grids:{side}', o.spectrum_bitmap, lo, hi, b)
    nontrivial = grow_l and grow_r
    # ---- insert sequences on one fresh Bitmap
    if case['ops']:
        o = _new_oms(99, maps[0])
        bm = o.spectrum_bitmap
        cur_lo, cur_hi = maps[0]['lo'], maps[0]['hi']
        sides = set()
        for side, cells in case['ops']:
            snapshot = dict(zip(bm.freq_index, bm.bitmap))
            vals = [code[c] for c in cells]
            if side == 'L':
                exact = {cur_lo - len(vals) + j: v for j, v in enumerate(vals)}
                bm.insert_left(list(vals))
                cur_lo -= len(vals)
            else:
                exact = {cur_hi + 1 + j: v for j, v in enumerate(vals)}
                bm.insert_right(list(vals))
                cur_hi += len(vals)
            if vals:
                sides.add(side)
            ctx.label(f'insert:{side}:{"empty" if not vals else "some"}')
            name = 'insert_left' if side == 'L' else 'insert_right'
            if not _check_map(ctx, name, bm, cur_lo, cur_hi, snapshot, added_not_free=False, added_exact=exact):
                break
        nontrivial = nontrivial or sides == {'L', 'R'}
    ctx.nontrivial(nontrivial)


# ------------------------------------------------------------------------------------------------ slot arithmetic

def run_arith(case, ctx):
    from gnpy.topology.spectrum_assignment import (frequency_to_n, nvalue_to_frequency, mvalue_to_slots, slots_to_m,
                                                   m_to_freq, Bitmap, BitmapValue)
    big_n, m, grid = case['N'], case['M'], case['grid']
    f = nvalue_to_frequency(big_n, grid)
    if abs(f - (F0 + big_n * grid)) > 1.0:       # 1 Hz: float rounding at 2e14 is 0.03 Hz
        ctx.violation('nvalue_to_frequency:closed-form', f'N={big_n} grid={grid}: {f}')
    if frequency_to_n(f, grid) != big_n:
        ctx.violation('frequency_to_n:round-trip', f'N={big_n} grid={grid}: back to {frequency_to_n(f, grid)}')
    start, stop = mvalue_to_slots(big_n, m)
    if (start, stop) != (big_n - m, big_n + m - 1):
        ctx.violation('mvalue_to_slots:range', f'N={big_n} M={m}: {(start, stop)}')
    if slots_to_m(start, stop) != (big_n, m):
        ctx.violation('slots_to_m:round-trip', f'N={big_n} M={m}: {(start, stop)} -> {slots_to_m(start, stop)}')
    f1, f2 = m_to_freq(big_n, m, grid)
    if abs(f1 - (F0 + (big_n - m) * grid)) > 1.0 or abs(f2 - (F0 + (big_n + m) * grid)) > 1.0:
        ctx.violation('m_to_freq:closed-form', f'N={big_n} M={m} grid={grid}: {(f1, f2)}')
    if grid == GRID and m <= 200:
        bm = Bitmap(nvalue_to_frequency(big_n - m), nvalue_to_frequency(big_n + m), GRID)
        if (bm.n_min, bm.n_max) != (big_n - m, big_n + m) or bm.freq_index != list(range(big_n - m, big_n + m + 1)) \
                or bm.bitmap != [BitmapValue.FREE] * (2 * m + 1):
            ctx.violation('Bitmap:fresh-map', f'range {big_n - m}..{big_n + m}: n_min={bm.n_min} n_max={bm.n_max} '
                          f'len={len(bm.bitmap)}')
        if (bm.freq_index_min, bm.freq_index_max) != (big_n - m + 4, big_n + m - 4):
            ctx.violation('Bitmap:guard-band-limits', f'range {big_n - m}..{big_n + m}: {bm.freq_index_min}, '
                          f'{bm.freq_index_max} (25 GHz = 4 slots expected)')
    ctx.nontrivial(True)


CHECKS = [
    Check('oms-map', net_case(True), run_net, quick=900, thorough=30000,
          doc='partition, opposite direction, common extent and usable-band marking; recorded-finding shapes excluded'),
    Check('oms-map-any', net_case_any(), run_net, quick=450, thorough=15000,
          doc='the same without exclusions + the shipped multiband example'),
    Check('align', align_case(), run_align, quick=1500, thorough=40000, doc='align_grids / insert_left / insert_right'),
    Check('slot-arith', arith_case(), run_arith, quick=400, thorough=8000, doc='frequency <-> slot helpers'),
]
FLOORS = {
    'oms-map:oms:two-bands': (0.3, 'oms-map'),                       # per-OMS label: >= 0.3 per case on average
    'oms-map:distinct-usable-layouts:2': (0.2, 'oms-map'),
    'oms-map-any:net:some-oms-ends-below-network-fmax': (0.15, 'oms-map-any'),
    'align:align:growth:left+right': (0.5, 'align'),
    'align:insert:R:some': (0.15, 'align'),
}
