"""C16 — each request's result is independent of the other requests in the batch (DESIGN §3 C16).

Differential over histories: baseline = every request planned alone on a pristine deep copy of the designed network; then the
SAME network object (and equipment dict) is reused for several orderings / sub-batches of the batch, so that any state leaking
from one propagation into the network accumulates. Route, mode, receiver figures and verdict of every request must equal its
baseline (spectrum labels and spectrum-blocking verdicts excluded) and the network must be left exactly as designed.
"""
import copy
import math
from hypothesis import strategies as st

from pbt.runner import Check
from gnpy.core.exceptions import DisjunctionError
from pbt.gens import netgen, services

PROPERTY = 'C16'
RULE = ('Generated designed network (2-4 ROADMs, amplifiers close to their p_max in a saturating class) + batch of 2-5 loadable '
        'requests mixing ordinary, dense-comb (37.5 GHz spacing, up to 128 channels), saturating, bidirectional, automatic-mode '
        'and blocked members (unsatisfiable STRICT route, infeasible mode), planned by planning() in 2-4 generated orderings / '
        'sub-batches on one shared network object. Non-trivial = >=2 requests sharing an amplifier with one of them saturating an '
        'amplifier or blocked. distinct = sha1 of the case JSON.')
ASSUMPTIONS = ['every member is loadable (a request rejected at load time stops the whole computation by documented design)',
               'N/M labels and NO_SPECTRUM / NOT_ENOUGH_RESERVED_SPECTRUM verdicts are excluded from the comparison',
               'attributes added by build_oms_list (oms, oms_id, oms_list) are excluded from the network state digest']

SKIP_ATTRS = {'oms', 'oms_id', 'oms_list'}
FIGS = ('snr_01nm', 'snr', 'osnr_ase_01nm', 'osnr_ase', 'osnr_nli', 'chromatic_dispersion', 'pmd', 'pdl', 'latency',
        'total_penalty')


@st.composite
def _simple_route(draw, truth, src, dst):
    """a simple ROADM-level route src -> dst as [(link id, direction)], by a generated walk over the ground-truth links"""
    site, seen, route = src, {src}, []
    for _ in range(truth['n']):
        if site == dst:
            break
        out = [(lid, 'ab', b) for lid, (a, b) in enumerate(truth['links']) if a == site and b not in seen] + \
              [(lid, 'ba', a) for lid, (a, b) in enumerate(truth['links']) if b == site and a not in seen]
        if not out:
            break
        direct = [o for o in out if o[2] == dst]
        lid, d, nxt = draw(st.sampled_from(direct)) if direct and draw(st.booleans()) else draw(st.sampled_from(out))
        route.append((lid, d))
        seen.add(nxt)
        site = nxt
    return route if site == dst else []


@st.composite
def batch_case(draw):
    saturating = draw(st.booleans())
    si = draw(netgen.si_entry(tx_power='none', power=0))
    si['spacing'], si['baud_rate'] = 50e9, 32e9
    if saturating:
        # design total power 0 dBm x 96 channels = 19.8 dBm, amplifiers with p_max 20/21: a denser comb saturates them
        pm = draw(st.sampled_from([20, 21]))
        lib = [{'type_variety': 'A0', 'type_def': 'variable_gain', 'gain_flatmax': 26, 'gain_min': 15, 'p_max': pm,
                'nf_min': 6, 'nf_max': 10, 'out_voa_auto': False, 'allowed_for_design': True},
               {'type_variety': 'A1', 'type_def': 'variable_gain', 'gain_flatmax': 16, 'gain_min': 8, 'p_max': pm,
                'nf_min': 6.5, 'nf_max': 11, 'out_voa_auto': False, 'allowed_for_design': True},
               {'type_variety': 'A2', 'type_def': 'variable_gain', 'gain_flatmax': 35, 'gain_min': 25, 'p_max': pm,
                'nf_min': 5.5, 'nf_max': 7, 'out_voa_auto': draw(st.booleans()), 'allowed_for_design': True}]
    else:
        lib = draw(netgen.edfa_library(n=(2, 4), kinds=('variable_gain', 'fixed_gain', 'advanced_model')))
    trx = [{'type_variety': 'T0', 'frequency': {'min': si['f_min'], 'max': si['f_max']}, 'mode': [
        {'format': 'm0', 'baud_rate': 32e9, 'OSNR': draw(st.sampled_from([8, 11, 14])), 'bit_rate': 100e9, 'roll_off': 0.15,
         'tx_osnr': 40, 'min_spacing': 50e9, 'cost': 1},
        {'format': 'm1', 'baud_rate': 28e9, 'OSNR': draw(st.sampled_from([8, 12])), 'bit_rate': 100e9, 'roll_off': 0.15,
         'tx_osnr': 40, 'min_spacing': 37.5e9, 'cost': 1},
        {'format': 'm2', 'baud_rate': 64e9, 'OSNR': draw(st.sampled_from([15, 19, 45])), 'bit_rate': 200e9, 'roll_off': 0.15,
         'tx_osnr': 40, 'min_spacing': 75e9, 'cost': 1,
         'equalization_offset_db': draw(st.sampled_from([0, 0, 2.0]))},
        {'format': 'm3', 'baud_rate': 32e9, 'OSNR': 60, 'bit_rate': 400e9, 'roll_off': 0.15,
         'tx_osnr': 40, 'min_spacing': 50e9, 'cost': 1}]}]
    eq = draw(netgen.equipment(edfa=lib, si=si, trx=trx, span=draw(netgen.span_entry(max_length=150, eol=0))))
    chain_kw = {'spans': (1, 2), 'fiber_kw': {'lumped': False, 'per_freq_loss': False}}
    topo, truth = draw(netgen.topology(eq, n=(2, 4), extra_max=2, chain_kw=chain_kw, per_degree=False))
    reqs = []
    seen = set()
    for i in range(draw(st.integers(2, 5))):
        src = draw(st.integers(0, truth['n'] - 1))
        dst = draw(st.integers(0, truth['n'] - 2))
        if dst >= src:
            dst += 1
        kind = draw(st.sampled_from(['ordinary', 'ordinary', 'dense', 'dense', 'wide', 'auto', 'blocked-route', 'blocked-mode',
                                     'explicit-line', 'twin-power']))
        r = {'src': src, 'dst': dst, 'kind': kind, 'bidir': draw(st.integers(0, 3)) == 0, 'include': []}
        if kind == 'twin-power' and reqs:
            # the same request as an earlier one but for the transmitter power: not the same request, never to be merged
            r = dict(reqs[draw(st.integers(0, len(reqs) - 1))], kind='twin-power',
                     tx_power_dbm=draw(st.sampled_from([-28.0, -20.0, -10.0])))
            if r.get('include_line'):
                r['include_line'] = list(r['include_line'])
        elif kind in ('twin-power', 'explicit-line'):
            r.update(mode='m0', spacing=50e9, nch=draw(st.sampled_from([None, 40])))
            if kind == 'explicit-line':
                # route named by line elements (first fibre of every link of a generated simple route), LOOSE
                route = draw(_simple_route(truth, src, dst))
                r['include_line'] = [[lid, d] for lid, d in route]
            r['kind'] = 'explicit-line' if kind == 'explicit-line' else 'ordinary'
        elif kind == 'ordinary':
            r.update(mode='m0', spacing=50e9, nch=draw(st.sampled_from([None, 40, 96])))
        elif kind == 'dense':
            r.update(mode='m1', spacing=37.5e9, nch=draw(st.sampled_from([None, 128, 120])))
        elif kind == 'wide':
            r.update(mode='m2', spacing=75e9, nch=draw(st.sampled_from([None, 30])))
        elif kind == 'auto':
            r.update(mode=None, spacing=draw(st.sampled_from([50e9, 75e9, 37.5e9])), nch=None)
        elif kind == 'blocked-mode':
            r.update(mode='m3', spacing=50e9, nch=draw(st.sampled_from([None, 20])))
        else:
            r.update(mode='m0', spacing=50e9, nch=None,
                     include=[['roadm', dst, 'STRICT'], ['roadm', src, 'STRICT']])
        eff_nch = r['nch'] if r['nch'] is not None else int((si['f_max'] - si['f_min']) // r['spacing'])
        key = (r['src'], r['dst'], r['mode'], r['spacing'], eff_nch, tuple(map(tuple, r['include'])),
               tuple(map(tuple, r.get('include_line', []))), r.get('tx_power_dbm'))
        if key in seen:
            continue   # identical requests would be aggregated under a joined id
        seen.add(key)
        reqs.append(r)
        if len(r.get('include_line', [])) >= 2 and draw(st.booleans()):
            # a bidirectional companion whose return direction runs over the first section of the explicit route
            lid, d = r['include_line'][0]
            a, b = truth['links'][lid] if d == 'ab' else truth['links'][lid][::-1]
            comp = {'src': b, 'dst': a, 'kind': 'ordinary', 'bidir': True, 'include': [], 'mode': 'm0', 'spacing': 50e9,
                    'nch': 40}
            ckey = (b, a, 'm0', 50e9, 40, (), (), None)
            if ckey not in seen:
                seen.add(ckey)
                reqs.append(comp)
    n = len(reqs)
    orders = [draw(st.permutations(list(range(n)))) for _ in range(draw(st.integers(1, 3)))]
    subsets = [draw(st.lists(st.integers(0, n - 1), min_size=1, max_size=n, unique=True))
               for _ in range(draw(st.integers(0, 1)))]
    # process-wide simulation parameters: mostly the default GN model; sometimes a GGN method whose computed channels are
    # given as a list or as a number (the list is then derived from each request's own comb)
    nli = draw(st.sampled_from([None] * 7 + [{'method': 'ggn_approx', 'computed_number_of_channels': 3},
                                {'method': 'ggn_approx', 'computed_number_of_channels': 5},
                                {'method': 'ggn_approx', 'computed_channels': [1, 4, 9]}]))
    sim = {} if nli is None else {'nli_params': dict({'dispersion_tolerance': 4, 'phase_shift_tolerance': 0.1}, **nli)}
    # synchronisation vectors (pairs that must be disjoint): a request is then computed together with the requests of its
    # vectors, in the order of the vector - and still independently of every other request and of the batch order
    sync = []
    if n >= 4 and draw(st.integers(0, 4)) == 0:
        # two separate vectors holding requests between the same two sites (told apart by their number of channels)
        a, b, c, d = draw(st.permutations(list(range(n))))[:4]
        for twin, of in ((c, a),) + (((d, b),) if draw(st.booleans()) else ()):
            reqs[twin] = dict(copy.deepcopy(reqs[of]), nch=41 + twin)
        others = [x for x in range(truth['n']) if x not in (reqs[a]['src'], reqs[a]['dst'])]
        if others and draw(st.booleans()):
            # the partner of the first leaves a third site towards the source, the partner of the twin runs the other way:
            # a route that no combination of the first vector can use is the one the second vector relies on
            def plain(src, dst, i):
                return {'src': src, 'dst': dst, 'kind': 'ordinary', 'bidir': False, 'include': [], 'mode': 'm0',
                        'spacing': 50e9, 'nch': 41 + i}
            reqs[b] = plain(draw(st.sampled_from(others)), reqs[a]['src'], b)
            reqs[d] = plain(reqs[a]['dst'], reqs[a]['src'], d)
        sync = [[a, b], [c, d]]
    elif n >= 2 and draw(st.integers(0, 2)) == 0:
        for _ in range(draw(st.integers(1, 2))):
            a, b = draw(st.permutations(list(range(n))))[:2]
            if [a, b] not in sync and [b, a] not in sync:
                sync.append([a, b])
    return {'eq': eq, 'topo': topo, 'truth': truth, 'requests': reqs, 'orders': [list(o) for o in orders] + subsets,
            'sim': sim, 'sync': sync}


def digest(obj, depth=0, seen=None):
    """recursive, order-independent description of an object's state (numpy arrays by value)"""
    import numpy as np
    if seen is None:
        seen = set()
    if obj is None or isinstance(obj, (bool, int, str)):
        return obj
    if isinstance(obj, float):
        return repr(obj)
    if isinstance(obj, np.ndarray):
        return ('nd', obj.shape, [digest(x, depth + 1, seen) for x in obj.ravel().tolist()])
    if isinstance(obj, (np.floating, np.integer)):
        return repr(float(obj))
    if isinstance(obj, (list, tuple)):
        return [digest(x, depth + 1, seen) for x in obj]
    if isinstance(obj, dict):
        return {str(k): digest(v, depth + 1, seen) for k, v in sorted(obj.items(), key=lambda kv: str(kv[0]))
                if k not in SKIP_ATTRS}
    if id(obj) in seen or depth > 6:
        return f'<{type(obj).__name__}>'
    seen.add(id(obj))
    if hasattr(obj, '__dict__'):
        return {'__type__': type(obj).__name__,
                **{k: digest(v, depth + 1, seen) for k, v in sorted(vars(obj).items()) if k not in SKIP_ATTRS}}
    return f'<{type(obj).__name__}>'


def net_digest(network):
    return {n.uid: digest(n) for n in network.nodes()}


def summarise(req, path, rpath):
    import numpy as np
    reason = getattr(req, 'blocking_reason', None)
    out = {'route': [e.uid for e in path], 'mode': req.tsp_mode, 'reason': reason,
           'reverse_route': [e.uid for e in rpath] if rpath else []}
    for tag, p in (('fwd', path), ('rev', rpath)):
        if p:
            rx = p[-1]
            for f in FIGS:
                v = getattr(rx, f, None)
                if v is not None:
                    out[f'{tag}:{f}'] = np.array(v, dtype=float) * np.ones(1)
    return out


def same(a, b):
    """None if equal else description of the first difference"""
    import numpy as np
    spectrum = ('NO_SPECTRUM', 'NOT_ENOUGH_RESERVED_SPECTRUM')
    for k in ('route', 'mode', 'reverse_route'):
        if a[k] != b[k]:
            return f'{k}: {a[k]} vs {b[k]}'
    ra, rb = a['reason'], b['reason']
    if ra != rb and ra not in spectrum and rb not in spectrum:
        return f'verdict: {ra} vs {rb}'
    keys = sorted(k for k in set(a) | set(b) if ':' in k)
    for k in keys:
        x, y = a.get(k), b.get(k)
        if x is None or y is None:
            return f'{k}: present in one result only'
        if x.shape != y.shape:
            return f'{k}: {x.shape} vs {y.shape} channels'
        with np.errstate(invalid='ignore'):
            d = np.abs(x - y)
        d = np.where(np.isinf(x) & np.isinf(y) & (np.sign(x) == np.sign(y)), 0.0, d)
        if not np.all(d <= 1e-9):
            i = int(np.nanargmax(np.where(np.isnan(d), np.inf, d)))
            return f'{k}: ch {i}: {x[i]!r} vs {y[i]!r}'
    return None


def run(case, ctx):
    from gnpy.tools.worker_utils import designed_network, planning
    from gnpy.tools.json_io import network_to_json
    sim = case.get('sim') or {}
    netgen.reset_sim_params(sim)
    try:
        _run(case, ctx, sim)
    finally:
        netgen.reset_sim_params()


def _run(case, ctx, sim):
    from gnpy.tools.worker_utils import designed_network, planning
    from gnpy.tools.json_io import network_to_json
    try:
        equipment, network = netgen.build_network(case['eq'], case['topo'])
        designed_network(equipment, network)
    except Exception as e:  # noqa C08
        ctx.label('skipped:design-failed:' + type(e).__name__)
        return
    reqs = case['requests']
    if len(reqs) < 2:
        ctx.label('skipped:single-request')
        return

    def rq_json(i):
        r = reqs[i]
        inc = [(f'roadm R{k}', hop) for _, k, hop in r['include']]
        inc += [(f'fiber L{lid}.{d}.0', 'LOOSE') for lid, d in r.get('include_line', [])]
        txp = None if r.get('tx_power_dbm') is None else 1e-3 * 10 ** (r['tx_power_dbm'] / 10)
        return services.request_json(i, f"trx R{r['src']}", f"trx R{r['dst']}", trx_type='T0', trx_mode=r['mode'],
                                     spacing=r['spacing'], nb_channel=r['nch'], bidir=r['bidir'], include=inc,
                                     path_bandwidth=100e9, tx_power=txp)
    sync = [p for p in case.get('sync', []) if max(p) < len(reqs)]
    comp_of = list(range(len(reqs)))
    for a, b in sync:
        ca, cb = comp_of[a], comp_of[b]
        comp_of = [ca if c == cb else c for c in comp_of]
    components = [[i for i in range(len(reqs)) if comp_of[i] == c] for c in sorted(set(comp_of))]

    def batch_json(order):
        present = set(order)
        data = {'path-request': [rq_json(i) for i in order]}
        vectors = [services.sync_json(f's{k}', p) for k, p in enumerate(sync) if set(p) <= present]
        if vectors:
            data['synchronization'] = vectors
        return data
    if sync:
        ctx.label('with-synchronization-vectors')
    json0 = copy.deepcopy(network_to_json(network))
    dig0 = net_digest(network)
    designed_gain = {n.uid: n.effective_gain for n in network.nodes() if hasattr(n, 'effective_gain')}
    # ---- baseline: each request alone on pristine copies
    base = {}
    saturating, blocked = set(), set()
    try:
        for comp in components:
            net_i, eq_i = copy.deepcopy(network), netgen.load_equipment(case['eq'])
            netgen.reset_sim_params(sim)     # "alone" = in a process that computed nothing before
            oms, pths, rpths, rqs, dsjn, res = planning(net_i, eq_i, batch_json(comp))
            if any(not str(r.request_id).isdigit() for r in rqs):
                ctx.label('not-judged:requests-aggregated-in-baseline')
                return
            for r, pth_, rpth_ in zip(rqs, pths, rpths):
                i = int(r.request_id)
                base[i] = summarise(r, pth_, rpth_)
                if base[i]['reason']:
                    blocked.add(i)
                for e in (pth_ or []):
                    g = designed_gain.get(e.uid)
                    if g is not None and getattr(e, 'effective_gain', None) is not None and abs(e.effective_gain - g) > 1e-9:
                        saturating.add(i)
    except Exception as e:  # noqa: OMS construction etc. is owned by C15; a crash of planning alone is not a batch effect
        from pbt.runner import classify_exception
        where, sig = classify_exception(e)
        if where == 'harness':
            raise
        ctx.label('skipped:baseline-failed:' + type(e).__name__)
        return
    # ---- the same network object (and the same process-wide state) for every ordering
    netgen.reset_sim_params(sim)
    if sim:
        ctx.label('nli:' + sim['nli_params']['method'] + (':number' if 'computed_number_of_channels' in sim['nli_params'] else ':list'))
    for order in case['orders']:
        # a sub-batch holds whole synchronisation components (a vector naming an absent request is rejected at load time)
        order = list(order) + [j for i in order for j in components[[k for k, c in enumerate(components) if i in c][0]]
                               if j not in order]
        order = list(dict.fromkeys(order))
        data = batch_json(order)
        # recorded finding: when a request belongs to two vectors, the outcome depends on the relative order of the requests
        # of these vectors in the batch; such failures carry their own signature, every other one keeps the plain signature
        tag = ''
        if any([i for i in order if i in comp] != comp for comp in components
               if any(sum(i in p for p in sync) > 1 for i in comp)):
            tag = ':requests-of-overlapping-vectors-reordered'
            ctx.label('ordering' + tag)
        try:
            oms, pths, rpths, rqs, dsjn, res = planning(network, equipment, data)
        except DisjunctionError as e:
            if not tag:
                raise
            ctx.violation('exception:DisjunctionError' + tag, f'order {order}, vectors {sync}: {e}')
            return
        if any(not str(r.request_id).isdigit() for r in rqs):
            # requests merged under a joined id: legitimate only if they are the same request once the LOOSE hops that could
            # not be used (e.g. naming a fibre that auto-design split) are dropped
            def essence(r):
                return (r['src'], r['dst'], r['mode'], r['spacing'], r['nch'], r['bidir'],
                        tuple(tuple(x) for x in r['include'] if x[2] == 'STRICT'), r.get('tx_power_dbm'))
            merged = [[int(x) for x in str(r.request_id).split(' | ')] for r in rqs if not str(r.request_id).isdigit()]
            if all(len({essence(reqs[i]) for i in g}) == 1 for g in merged):
                ctx.label('not-judged:requests-identical-once-loose-hops-are-dropped')
                return
            ctx.violation('distinct-requests-aggregated', f'order {order}: result ids {[r.request_id for r in rqs]}')
            return
        got = {int(r.request_id): summarise(r, p, rp) for r, p, rp in zip(rqs, pths, rpths)}
        if sorted(got) != sorted(order):
            ctx.violation('requests-missing-from-result', f'{sorted(got)} vs {sorted(order)}')
            return
        for i in order:
            diff = same(base[i], got[i])
            if diff:
                ctx.violation('result-depends-on-batch' + tag, f'request {i} ({reqs[i]["kind"]}) in order {order}: alone vs in batch: {diff}')
                return
    dig1 = net_digest(network)
    if dig1 != dig0:
        for uid in dig0:
            if dig0[uid] != dig1.get(uid):
                keys = [k for k in dig0[uid] if dig0[uid].get(k) != dig1[uid].get(k)] if isinstance(dig0[uid], dict) else []
                ctx.violation('planning-changed-network-state', f'{uid}: attributes {keys[:6]}')
                break
    if network_to_json(network) != json0:
        ctx.violation('planning-changed-exported-network', '')
    for r in reqs:
        ctx.label('kind:' + r['kind'])
    if saturating:
        ctx.label('has:saturating')
    if blocked:
        ctx.label('has:blocked')
    # two requests share an amplifier?
    routes = {i: set(base[i]['route']) | set(base[i]['reverse_route']) for i in base}
    share = any(any(u.startswith(('Edfa', 'amp ', 'booster', 'preamp')) for u in routes[i] & routes[j])
                for i in routes for j in routes if i < j)
    ctx.nontrivial(share and bool(saturating or blocked))


# ------------------------------------------------------------------------------------------------ requests built through the API

@st.composite
def api_case(draw):
    eq = draw(netgen.equipment(span=draw(netgen.span_entry(max_length=200, padding=10, eol=0))))
    chain_kw = {'spans': (1, 1), 'fiber_kw': {'lumped': False, 'per_freq_loss': False}, 'fused': False, 'user_amps': False}
    topo, truth = draw(netgen.topology(eq, n=(3, 5), extra_max=2, chain_kw=chain_kw, per_degree=False, own_policy=False))
    pairs = []
    for _ in range(draw(st.integers(2, 4))):
        src = draw(st.integers(0, truth['n'] - 1))
        dst = draw(st.integers(0, truth['n'] - 2))
        pairs.append([src, dst + (dst >= src)])
    return {'eq': eq, 'topo': topo, 'truth': truth, 'pairs': pairs}


def run_api(case, ctx):
    """PathRequest objects built with the documented defaults (no route constraint given): the route of each is the same
    alone and after the others, and computing them leaves the class-level defaults untouched"""
    import copy as _copy
    from gnpy.tools.worker_utils import designed_network
    from gnpy.topology.request import PathRequest, compute_path_dsjctn
    from gnpy.topology.spectrum_assignment import build_oms_list
    from gnpy.topology.topology_parameters import RequestParams
    netgen.reset_sim_params()
    try:
        equipment, network = netgen.build_network(case['eq'], case['topo'])
        designed_network(equipment, network)
        build_oms_list(network, equipment)
    except Exception as e:  # noqa C08 / C15
        ctx.label('skipped:design-failed:' + type(e).__name__)
        return
    defaults0 = _copy.deepcopy(RequestParams.default_values)

    def make(i, src, dst):
        return PathRequest(request_id=str(i), source=f'trx R{src}', destination=f'trx R{dst}', bidir=False, trx_type='',
                           trx_mode='', format='', path_bandwidth=0, effective_freq_slot=None, nb_channel=None,
                           power=1e-3, tx_power=1e-3)

    def routes(reqs):
        return [[e.uid for e in p] for p in compute_path_dsjctn(network, equipment, reqs, [])]
    alone = [routes([make(i, s, d)])[0] for i, (s, d) in enumerate(case['pairs'])]
    if RequestParams.default_values != defaults0:
        ctx.violation('api:class-level-request-defaults-changed', f'{defaults0} -> {RequestParams.default_values}')
        return
    together = routes([make(i, s, d) for i, (s, d) in enumerate(case['pairs'])])
    for i, (a, b) in enumerate(zip(alone, together)):
        if a != b:
            ctx.violation('api:route-depends-on-the-other-requests',
                          f'request {i} R{case["pairs"][i][0]}->R{case["pairs"][i][1]}: alone {[u for u in a if u.startswith("roadm")]}, '
                          f'in the batch {[u for u in b if u.startswith("roadm")]}')
            return
    if RequestParams.default_values != defaults0:
        ctx.violation('api:class-level-request-defaults-changed', f'{defaults0} -> {RequestParams.default_values}')
    ctx.nontrivial(len({tuple(p) for p in case['pairs']}) >= 2)



CHECKS = [Check('batch', batch_case(), run, quick=500, thorough=8000, doc='alone vs in generated batch orderings'),
          Check('api-requests', api_case(), run_api, quick=150, thorough=4000,
                doc='PathRequest objects built with the default route lists: alone vs together, class defaults untouched')]
