"""C17 — designing is repeatable: export, reload and redesign changes nothing; SimParams untouched (DESIGN §3 C17).

Round trip over histories of 1-3 export/reload/redesign rounds on generated topologies, with generated simulation parameters in
force; one request is propagated on the first and on the last round.
"""
import copy
import json
import math
from hypothesis import strategies as st

from pbt.runner import Check
from pbt.gens import netgen
from pbt.props import _paths

PROPERTY = 'C17'
RULE = ('Generated library (EOL 0-3 dB, padding, connectors, power/gain mode, auto VOA models) and mesh (lumped losses, '
        'per-element pmd/dispersion/gamma overrides, user amplifiers with partial settings, long fibres that get split, '
        'RamanFiber spans in a sub-check) x generated SimParams (Raman flag/method/order/resolutions, NLI method, computed '
        'channels) x 1-3 export -> reload -> redesign rounds. Non-trivial = design changed something (split, padding, model '
        'selection, VOA) and >=2 rounds. distinct = sha1 of the case JSON.')
ASSUMPTIONS = ['exported numbers are compared with |delta| <= 2.5e-6 (export rounds gains/lengths to 6 decimals; a gain recomputed from rounded exported inputs and rounded again may move by one unit of the last digit)',
               'receiver figures of round 1 and round k are compared within 1e-3 dB (export rounds gains to 1e-6 dB and loss coefficients to 1e-6 dB/km)']

TOL = 2.5e-6   # two units of the last exported digit: a value recomputed from rounded inputs and rounded again


@st.composite
def sim_params(draw, raman):
    return {
        'raman_params': {'flag': bool(raman and draw(st.booleans())) if not raman else True,
                         'method': draw(st.sampled_from(['perturbative', 'numerical'])),
                         'order': draw(st.sampled_from([1, 2, 3])),
                         'result_spatial_resolution': draw(st.sampled_from([10e3, 20e3, 5e3])),
                         'solver_spatial_resolution': draw(st.sampled_from([10e3, 2e3, 500.0]))},
        'nli_params': {'method': draw(st.sampled_from(['gn_model_analytic', 'gn_model_analytic', 'ggn_approx'])),
                       'dispersion_tolerance': draw(st.sampled_from([1, 4])),
                       'phase_shift_tolerance': 0.1,
                       'computed_channels': draw(st.sampled_from([None, [1, 3], [2]])),
                       'computed_number_of_channels': None}}


@st.composite
def roundtrip_case(draw, raman=False):
    # EOL > 0 is a recorded finding that ends the comparison of a case early: keep it a minority
    eq = draw(netgen.equipment(raman_fiber=raman, span=draw(netgen.span_entry(eol=draw(st.sampled_from([0, 0, 0, 0, 0, 1.5]))))))
    chain_kw = {'raman': raman, 'fused': not raman}
    topo, truth = draw(netgen.topology(eq, n=(2, 3), extra_max=1, chain_kw=chain_kw))
    for f in [e for e in topo['elements'] if e['type'] == 'Fiber']:
        p = f['params']
        if draw(st.integers(0, 6)) == 0 and p['length'] * 3 <= 1000:
            k = draw(st.sampled_from([2.0, 3.0]))
            p['length'] = round(p['length'] * k, 3)
            for ll in p.get('lumped_losses', []):
                ll['position'] = round(ll['position'] * k, 3)
        if draw(st.integers(0, 7)) == 0:
            p['dispersion'] = draw(st.sampled_from([1.2e-05, 2.0e-05]))
        if draw(st.integers(0, 9)) == 0:
            p['gamma'] = draw(st.sampled_from([0.0011, 0.0016]))
    src = draw(st.integers(0, truth['n'] - 1))
    dst = draw(st.integers(0, truth['n'] - 2))
    if dst >= src:
        dst += 1
    return {'eq': eq, 'topo': topo, 'truth': truth, 'src': src, 'dst': dst, 'rounds': draw(st.integers(1, 3)),
            'sim': draw(sim_params(raman)), 'nch': draw(st.integers(3, 12))}


def sim_state():
    from gnpy.core.parameters import SimParams
    return {'raman': copy.deepcopy(SimParams._shared_dict['raman_params'].to_json()),
            'nli': copy.deepcopy(SimParams._shared_dict['nli_params'].to_json())}


def flat(obj, prefix=''):
    """flatten JSON to {path: leaf}"""
    out = {}
    if isinstance(obj, dict):
        for k, v in obj.items():
            out.update(flat(v, f'{prefix}.{k}' if prefix else str(k)))
    elif isinstance(obj, list):
        for i, v in enumerate(obj):
            out.update(flat(v, f'{prefix}[{i}]'))
    else:
        out[prefix] = obj
    return out


def compare_exports(ctx, a, b, tag, features):
    """elements matched by uid, every exported parameter, connection set"""
    ea = {e['uid']: e for e in a['elements']}
    eb = {e['uid']: e for e in b['elements']}
    if sorted(ea) != sorted(eb):
        ctx.violation('element-set-changed', f'{tag}: only in first {sorted(set(ea) - set(eb))[:4]}, only in second '
                                             f'{sorted(set(eb) - set(ea))[:4]}')
        return False
    ca = sorted((c['from_node'], c['to_node']) for c in a['connections'])
    cb = sorted((c['from_node'], c['to_node']) for c in b['connections'])
    if ca != cb:
        ctx.violation('connection-set-changed', tag)
        return False
    # fibres first: a drifting connector loss is the root cause of the amplifier drifts that follow from it
    for uid in sorted(ea, key=lambda u: (ea[u].get('type') not in ('Fiber', 'RamanFiber'), u)):
        fa, fb = flat(ea[uid]), flat(eb[uid])
        for k in sorted(set(fa) | set(fb)):
            x, y = fa.get(k, '<absent>'), fb.get(k, '<absent>')
            if isinstance(x, (int, float)) and isinstance(y, (int, float)) and not isinstance(x, bool):
                same = abs(x - y) <= TOL
            else:
                same = x == y
            if not same:
                kind = ea[uid].get('type')
                key = k.split('.')[-1]
                sig = f'exported-parameter-drifts:{kind}:{key}'
                if kind in ('Fiber', 'RamanFiber') and key == 'con_out' and features.get('eol'):
                    sig += ':with-EOL'
                ctx.violation(sig, f'{tag}: {uid}: {k}: {x!r} -> {y!r}')
                return False
    return True


def run(case, ctx):
    import numpy as np
    from gnpy.tools.worker_utils import designed_network
    from gnpy.tools.json_io import network_to_json, network_from_json
    from gnpy.topology.request import compute_constrained_path, propagate
    from gnpy.tools.convert_legacy_yang import yang_to_legacy
    eqj = case['eq']
    span = eqj['Span'][0]
    features = {'eol': span['EOL'] > 0,
                'lumped': any('lumped_losses' in e.get('params', {}) for e in case['topo']['elements']),
                'override': any(k in e.get('params', {}) for e in case['topo']['elements'] for k in ('dispersion', 'gamma'))}
    netgen.reset_sim_params(case['sim'])
    before = sim_state()
    try:
        def design(topo_json, exported=False):
            equipment = netgen.load_equipment(eqj)
            data = json.loads(json.dumps(topo_json))
            if exported:
                # the real load path of a saved network: file -> load_gnpy_json (= yang_to_legacy) -> network_from_json
                data = yang_to_legacy(data)
            network = network_from_json(data, equipment)
            network, req, ref = designed_network(equipment, network, source=f"trx R{case['src']}",
                                                 destination=f"trx R{case['dst']}")
            return equipment, network, req

        try:
            equipment, network, req = design(case['topo'])
        except Exception as e:  # noqa C08 owns design completion; SimParams must be intact all the same
            if sim_state() != before:
                ctx.violation('simparams-changed-by-failed-design', f'{before} -> {sim_state()}')
            ctx.label('skipped:design-failed:' + type(e).__name__)
            return
        if sim_state() != before:
            ctx.violation('simparams-changed-by-design', f'{before} -> {sim_state()}')
            return
        j1 = network_to_json(network)
        json.dumps(j1)  # must be serialisable
        # same input designed twice
        _, network_b, _ = design(case['topo'])
        if not compare_exports(ctx, j1, network_to_json(network_b), 'same input designed twice', features):
            return

        def receiver(equipment, network, req):
            req = copy.deepcopy(req)
            req.nb_channel = case['nch']
            req.f_max = req.f_min + req.spacing * case['nch']
            path = compute_constrained_path(network, req)
            if not path:
                return None
            path = copy.deepcopy(path)
            propagate(path, req, equipment)
            rx = path[-1]
            return {k: np.array(getattr(rx, k), dtype=float) for k in ('snr_01nm', 'osnr_ase_01nm', 'osnr_nli',
                                                                       'chromatic_dispersion', 'pmd', 'pdl')}
        def weights(net):
            return sorted((u.uid, v.uid, round(float(w.get('weight', 0.0)), 6)) for u, v, w in net.edges(data=True))
        w1 = weights(network)
        rx1 = receiver(equipment, network, req)
        jk = j1
        for k in range(case['rounds']):
            equipment_k, network_k, req_k = design(jk, exported=True)
            wk = weights(network_k)
            # the export rounds fibre lengths to the millimetre: weights (metres) are compared within 1 cm
            same = len(wk) == len(w1) and all(a[:2] == b[:2] and abs(a[2] - b[2]) <= 0.01 for a, b in zip(w1, wk))
            if not same:
                d = [x for x in w1 if x not in wk][:2], [x for x in wk if x not in w1][:2]
                ctx.violation('routing-weights-of-the-reloaded-design-differ', f'round {k + 2}: designed {d[0]} reloaded {d[1]}')
                return
            if sim_state() != before:
                ctx.violation('simparams-changed-by-design', f'round {k + 2}')
                return
            jn = network_to_json(network_k)
            if not compare_exports(ctx, jk, jn, f'round {k + 1} -> {k + 2}', features):
                return
            jk = jn
        rxk = receiver(equipment_k, network_k, req_k)
        if rx1 is not None and rxk is not None:
            for name in rx1:
                x, y = rx1[name], rxk[name]
                if x.shape != y.shape or not np.all(np.abs(x - y) <= 1e-3 + 1e-7 * np.abs(x)):
                    sig = 'saved-design-propagates-differently'
                    if features['override']:
                        sig += ':fibre-parameter-override'
                    elif features['lumped']:
                        sig += ':lumped-losses'
                    ctx.violation(sig, f'{name}: designed {x[:3]} reloaded {y[:3]}')
                    break
        changed = any(e['uid'] not in {x['uid'] for x in case['topo']['elements']} for e in j1['elements'])
        for f, v in features.items():
            if v:
                ctx.label('feat:' + f)
        ctx.label(f'rounds:{case["rounds"]}', f'raman-flag:{case["sim"]["raman_params"]["flag"]}')
        ctx.nontrivial(changed and case['rounds'] >= 2)
    finally:
        netgen.reset_sim_params()


CHECKS = [
    Check('roundtrip', roundtrip_case(), run, quick=500, thorough=8000, doc='export/reload/redesign rounds'),
    Check('roundtrip-raman', roundtrip_case(raman=True), run, quick=24, thorough=600, doc='same with RamanFiber spans'),
]
