"""C18 — input documents mean the same thing in legacy and YANG form; equipment aliases (DESIGN §3 C18).

For a generated LEGACY document L of each kind (equipment, topology, services, spectrum, sim-params, amplifier advanced
config):
  Y = legacy_to_yang(L), C = yang_to_legacy(Y)
  validity     Y is accepted by the repository's own libyang validation (the one yang_to_legacy / load_gnpy_json runs)
  idempotence  legacy_to_yang(Y) == Y and yang_to_legacy(C) == C
  round trip   C equals L up to null-vs-absent, keyed-list order, int/float/decimal-string spelling and
               |delta| <= 1/2 * 10^-d for a value carrying more than the d fraction digits its YANG leaf declares
               (d is read from the .yang files, not from precision_dict.py); a value with <= d digits returns exactly
  pass-through yang_to_legacy(L) (what load_gnpy_json does to a legacy file) equals L
  semantics    the objects the public loaders build from L and from C are equal (only for documents without
               excess-digit values): equipment dict, network (network_to_json and every element's attributes),
               PathRequest / Disjunction fields, carriers of an initial spectrum, SimParams, amplifier built from an
               advanced config; and, on small networks, one design + propagation gives the same receiver figures
  aliases      every name of an Edfa / Transceiver / mode declared with `other_name` gives an entry equal to the
               primary one that reports that very name
  key-order    (own sub-check, child process) a legacy document whose keyed-list entry has its key member written last
               is still a valid document: it must convert (the converters re-order three lists only; libyang is run
               in strict/ordered mode and rejects the others, sometimes taking the interpreter down)
Signatures carry the document kind and the JSON path of each difference (entries of keyed lists as [*], positions of
plain lists as [0] / [1+], uid-keyed dict members as {*}); every differing path of a case is reported, so one recorded
finding does not hide another one in the same document.
"""
import copy
import json
import re

from hypothesis import strategies as st

from pbt.runner import Check
from pbt.gens import netgen, documents
from pbt.oracles.docdiff import doc_diff, obj_diff, obj_diffs, Differ

PROPERTY = 'C18'
RULE = ('Grammar-based legacy documents (pbt/gens/documents.py) on top of netgen libraries/topologies: all element types '
        '(Fiber, RamanFiber with pumps, Edfa, Fused, Roadm, Transceiver, Multiband_amplifier), three per-degree target '
        'kinds, design_bands / per_degree_design_bands, per_degree_impairments, per-frequency loss and dispersion, '
        'raman_coefficient / raman_efficiency, lumped losses, several SI / Span / Roadm entries, roadm-path-impairments, '
        'penalties, other_name on Edfa / Transceiver / mode, nulls and omitted optionals, N/M slots with nulls, '
        'synchronization groups, unordered keyed lists; shipped example files as seeds. Every decimal leaf is quantised '
        'to the fraction digits of its YANG leaf, then some or all leaves are moved by k*10^-d (class a) or k*10^-(d+e) '
        '(class b, excess digits). Sub-check key-order: same documents with one keyed-list entry written with its key '
        'member last, converted in a child process. Non-trivial = the document uses at least one tracked feature '
        '(label <kind>:<feature>, i.e. beyond the plain shipped-example shape) or carries excess-digit values; seeds: '
        'file with moved values; propagation: both forms designed and propagated. distinct = sha1 of the case.')
ASSUMPTIONS = [
    'libyang (oopt-gnpy-libyang) with the modules shipped in gnpy/yang is the judge of YANG validity',
    'declared precision of a leaf = fraction-digits of its YANG leaf (own parser of the .yang files)',
    'equipment Fiber `dispersion_slope` and element-level Edfa `variety_list` are not generated: not documented as '
    'fields of those places and not read/declared consistently (library loader ignores the first; no YANG home for '
    'the second)',
    'semantic equality is judged only for documents whose values all fit the declared digits (class a)',
    'design failures of a generated network in legacy form are owned by C08 and skipped (labelled)',
]

# -------------------------------------------------------------------------------------------------- helpers


def _norm_msg(s):
    s = re.sub(r'[-+]?\d[\d.eE+-]*', 'N', s)
    s = re.sub(r"\[[^\]]*\]", '[*]', s)
    return s.strip()[:110]


def _num_sig(s):
    return re.sub(r'\d+', '#', s)


def _strict(kind, a, b):
    """exact document equality (idempotence); returns the list of (sig, detail), one per differing path"""
    if a == b:
        return []
    d = Differ(kind, tolerant=False)
    d.diff(a, b)
    return d.found or [('', 'documents differ (no path found): ' + json.dumps(a, sort_keys=True, default=str)[:200])]


_PROBE = """
import sys, json, logging
sys.path.insert(0, sys.argv[1])
logging.disable(logging.CRITICAL)
from gnpy.tools.convert_legacy_yang import legacy_to_yang, yang_to_legacy
import oopt_gnpy_libyang as ly
L = json.load(sys.stdin)
try:
    yang_to_legacy(legacy_to_yang(L))
    print('OK')
except ly.Error as e:
    print('INVALID ' + (e.args[1][0].what if len(e.args) > 1 and e.args[1] else str(e)))
"""


def probe_in_child(L):
    """Run legacy -> YANG -> legacy once in a child interpreter. The libyang binding can take the whole process down
    (SIGSEGV) on some member orders of keyed-list entries; a worker dying would break the run, so the 'key-order'
    sub-check tries its documents out of process first. Returns ('ok'|'invalid'|'crash', text)."""
    import subprocess
    import sys
    from pbt.runner import _gnpy_root
    try:
        r = subprocess.run([sys.executable, '-W', 'ignore', '-c', _PROBE, _gnpy_root()], input=json.dumps(L),
                           capture_output=True, text=True, timeout=120)
    except subprocess.TimeoutExpired:
        return 'crash', 'timeout'
    out = r.stdout.strip().splitlines()
    if r.returncode < 0:
        return 'crash', f'signal {-r.returncode}'
    if out and out[-1] == 'OK':
        return 'ok', ''
    if out and out[-1].startswith('INVALID '):
        return 'invalid', out[-1][8:]
    from pbt.runner import HarnessError
    raise HarnessError(f'probe child failed rc={r.returncode}: {r.stderr[-600:]}')


def conversions(ctx, kind, L, check_passthrough=True):
    """validity, idempotence, round trip, pass-through. Returns (Y, C) (C None when Y is not usable)."""
    from gnpy.tools.convert_legacy_yang import legacy_to_yang, yang_to_legacy
    import oopt_gnpy_libyang as ly
    Y = legacy_to_yang(copy.deepcopy(L))
    Y2 = legacy_to_yang(copy.deepcopy(Y))
    for r in _strict(kind, Y, Y2):
        ctx.violation(f'idempotence-l2y:{kind}:{r[0]}', r[1])
    try:
        # yang_to_legacy validates legacy_to_yang(Y) (== Y when idempotent) with libyang before converting
        C = yang_to_legacy(copy.deepcopy(Y))
    except ly.Error as e:
        msgs = e.args[1] if len(e.args) > 1 else []
        what = msgs[0].what if msgs else str(e)
        where = msgs[0].where if msgs else ''
        ctx.violation(f'invalid-yang:{kind}:{_norm_msg(what)}', f'{what} @ {where}')
        return Y, None
    try:
        C2 = yang_to_legacy(copy.deepcopy(C))
    except ly.Error as e:
        msgs = e.args[1] if len(e.args) > 1 else []
        what = msgs[0].what if msgs else str(e)
        ctx.violation(f'idempotence-y2l:{kind}:second-conversion-rejected:{_norm_msg(what)}',
                      f'yang_to_legacy(yang_to_legacy(Y)) rejected: {what} @ {msgs[0].where if msgs else ""}')
        C2 = None
    if C2 is not None:
        for r in _strict(kind, C, C2):
            ctx.violation(f'idempotence-y2l:{kind}:{r[0]}', r[1])
    if kind == 'edfa-config' and isinstance(C, dict) and list(C) == ['gnpy-edfa-config:edfa-config']:
        # yang_to_legacy keeps the module wrapper for this kind (the API conversion and its expected files rely on
        # it, and amplifier configs are outside the five kinds C18 names): judged on the content
        C = C['gnpy-edfa-config:edfa-config']
        ctx.label('note:edfa-config-wrapper-kept')
    notes = set()
    for r in doc_diff(kind, L, C, tolerant=True, notes=notes):
        ctx.violation(f'roundtrip:{kind}:{r[0]}', r[1])
    for n in notes:
        ctx.label('note:' + n)
    # ---- a YANG list whose entries carry their position in an explicit key (coef_order of the noise-figure polynomial)
    # means the same thing in whatever order its entries are written: the legacy list is ordered by that key
    def reverse_positional(x):
        if isinstance(x, dict):
            return {k: reverse_positional(v) for k, v in x.items()}
        if isinstance(x, list):
            y = [reverse_positional(v) for v in x]
            return y[::-1] if len(y) > 1 and all(isinstance(v, dict) and 'coef_order' in v for v in y) else y
        return x
    Yr = reverse_positional(Y)
    if Yr != Y:
        ctx.label('yang-positional-lists-reversed')
        try:
            Cr = yang_to_legacy(copy.deepcopy(Yr))
            if kind == 'edfa-config' and isinstance(Cr, dict) and list(Cr) == ['gnpy-edfa-config:edfa-config']:
                Cr = Cr['gnpy-edfa-config:edfa-config']
            for r in _strict(kind, C, Cr):
                ctx.violation(f'yang-list-order:{kind}:{r[0]}', r[1])
        except ly.Error as e:
            msgs = e.args[1] if len(e.args) > 1 else []
            what = msgs[0].what if msgs else str(e)
            ctx.violation(f'yang-list-order:{kind}:rejected:{_norm_msg(what)}', f'{what} @ {msgs[0].where if msgs else ""}')
    if check_passthrough:
        try:
            P = yang_to_legacy(copy.deepcopy(L))
        except ly.Error as e:
            msgs = e.args[1] if len(e.args) > 1 else []
            what = msgs[0].what if msgs else str(e)
            ctx.violation(f'legacy-passthrough:{kind}:rejected:{_norm_msg(what)}', f'{what}')
            P = None
        if P is not None:
            for r in doc_diff(kind, L, P, tolerant=False):
                ctx.violation(f'legacy-passthrough:{kind}:{r[0]}', r[1])
    return Y, C


def _labels(ctx, case, kind):
    ctx.label(f'class:{case["cls"]}')
    for f in case.get('features', []):
        ctx.label(f'{kind}:{f}')
    # non-trivial: uses a tracked feature (beyond the plain shipped-example shape) or carries excess-digit values
    ctx.nontrivial(bool(case.get('features')) or case['cls'] == 'b')


def load_eq(eq_json, extra=None):
    from gnpy.tools.json_io import _equipment_from_json
    from gnpy.tools.default_edfa_config import DEFAULT_EXTRA_CONFIG
    cfg = dict(DEFAULT_EXTRA_CONFIG)
    if extra:
        cfg.update(extra)
    return _equipment_from_json(copy.deepcopy(eq_json), copy.deepcopy(cfg))


# -------------------------------------------------------------------------------------------------- equipment

def check_aliases(ctx, L, eqpt, form):
    """other_name on Edfa / Transceiver / mode: each name -> equal entry reporting that name"""
    for section in ('Edfa', 'Transceiver'):
        for entry in L.get(section, []):
            if not entry.get('other_name'):
                continue
            primary = entry['type_variety']
            if primary not in eqpt[section]:
                ctx.violation(f'alias:{form}:{section}:primary-missing', f'{primary} not in library')
                continue
            ref = vars(eqpt[section][primary])
            for name in [primary] + list(entry['other_name']):
                obj = eqpt[section].get(name)
                if obj is None:
                    ctx.violation(f'alias:{form}:{section}:name-missing', f'{name} (alias of {primary}) not in library')
                    continue
                if obj.type_variety != name:
                    ctx.violation(f'alias:{form}:{section}:reports-other-name',
                                  f'equipment[{section}][{name!r}].type_variety == {obj.type_variety!r} '
                                  f'(names declared: {[primary] + list(entry["other_name"])})')
                a = {k: v for k, v in ref.items() if k != 'type_variety'}
                b = {k: v for k, v in vars(obj).items() if k != 'type_variety'}
                d = obj_diff(a, b)
                if d:
                    ctx.violation(f'alias:{form}:{section}:parameters-differ:{_num_sig(d.split(":")[0])}',
                                  f'{name} vs {primary}: {d}')
            ctx.label(f'alias-checked:{section}')
    for entry in L.get('Transceiver', []):
        for m in entry.get('mode', []):
            if not m.get('other_name'):
                continue
            for tname in [entry['type_variety']] + list(entry.get('other_name', [])):
                trx = eqpt['Transceiver'].get(tname)
                if trx is None:
                    continue
                by_format = {}
                for mm in trx.mode:
                    by_format.setdefault(mm['format'], []).append(mm)
                ref = by_format.get(m['format'], [None])[0]
                for name in [m['format']] + list(m['other_name']):
                    got = by_format.get(name, [])
                    if len(got) != 1:
                        ctx.violation(f'alias:{form}:mode:name-count', f'{tname}: {len(got)} modes named {name!r}')
                        continue
                    if 'other_name' in got[0]:
                        ctx.violation(f'alias:{form}:mode:other_name-left', f'{tname}/{name}')
                    if ref is not None:
                        d = obj_diff({k: v for k, v in ref.items() if k not in ('format', 'other_name')},
                                     {k: v for k, v in got[0].items() if k not in ('format', 'other_name')})
                        if d:
                            ctx.violation(f'alias:{form}:mode:parameters-differ:{_num_sig(d.split(":")[0])}',
                                          f'{tname}/{name}: {d}')
            ctx.label('alias-checked:mode')


def run_equipment(case, ctx):
    from gnpy.core.exceptions import EquipmentConfigError
    L = documents.canonical(case['doc'])
    _labels(ctx, case, 'equipment')
    Y, C = conversions(ctx, 'equipment', L)
    try:
        EA = load_eq(L)
    except EquipmentConfigError as e:
        ctx.label('generator:legacy-rejected-by-loader')
        ctx.note['rejected'] = str(e)
        return
    check_aliases(ctx, L, EA, 'legacy')
    # declaring further names must not change the entry itself: the same library without any other_name gives the same
    # entries under the primary names
    if any(e.get('other_name') for sec in ('Edfa', 'Transceiver') for e in L.get(sec, [])):
        L0 = copy.deepcopy(L)
        for sec in ('Edfa', 'Transceiver'):
            for e in L0.get(sec, []):
                e.pop('other_name', None)
                for m in e.get('mode', []) if sec == 'Transceiver' else []:
                    m.pop('other_name', None)
        try:
            E0 = load_eq(L0)
        except EquipmentConfigError:
            E0 = None
        if E0 is not None:
            for sec in ('Edfa', 'Transceiver'):
                for e in L.get(sec, []):
                    if not e.get('other_name'):
                        continue
                    name = e['type_variety']
                    a, b = vars(EA[sec][name]), vars(E0[sec][name])
                    if sec == 'Transceiver':
                        # modes declared under several names are additional entries of the list: compare the common ones
                        fm = {m['format'] for m in b['mode']}
                        a = dict(a, mode=[m for m in a['mode'] if m['format'] in fm])
                    for d in obj_diffs(a, b, limit=3):
                        ctx.violation(f'alias:declaring-other-names-changes-the-entry:{sec}:{_num_sig(d.split(":")[0])}',
                                      f'{name}: {d}')
    if C is None or case['cls'] != 'a':
        return
    EC = load_eq(C)
    for d in obj_diffs(EA, EC):
        ctx.violation(f'semantics:equipment:{_num_sig(d.split(":")[0])}', d)
    check_aliases(ctx, L, EC, 'yang')


# -------------------------------------------------------------------------------------------------- topology

def _network(eq_json, topo):
    from gnpy.tools.json_io import network_from_json
    equipment = load_eq(eq_json)
    return equipment, network_from_json(copy.deepcopy(topo), equipment)


def compare_networks(ctx, na, nc):
    from gnpy.tools.json_io import network_to_json
    ja, jc = network_to_json(na), network_to_json(nc)
    for r in _strict('topology', ja, jc):
        ctx.violation(f'semantics:topology:to_json:{r[0]}', r[1])
    A = {n.uid: n for n in na.nodes()}
    B = {n.uid: n for n in nc.nodes()}
    if set(A) != set(B):
        ctx.violation('semantics:topology:node-set', f'{sorted(set(A) ^ set(B))[:5]}')
        return
    n_reported = 0
    for uid in A:
        for d in obj_diffs(vars(A[uid]), vars(B[uid]), limit=4):
            ctx.violation(f'semantics:topology:{type(A[uid]).__name__}.{_num_sig(d.split(":")[0])}', f'{uid}: {d}')
            n_reported += 1
        if n_reported >= 8:
            return
    ea = sorted((u.uid, v.uid, w.get('weight')) for u, v, w in na.edges(data=True))
    eb = sorted((u.uid, v.uid, w.get('weight')) for u, v, w in nc.edges(data=True))
    if ea != eb:
        ctx.violation('semantics:topology:edges', f'{[x for x in ea if x not in eb][:3]} vs {[x for x in eb if x not in ea][:3]}')


def run_topology(case, ctx):
    L = documents.canonical(case['doc'])
    case = dict(case, eq=documents.canonical(case['eq']))
    _labels(ctx, case, 'topology')
    for el in L['elements']:
        ctx.label('element:' + el['type'])
    Y, C = conversions(ctx, 'topology', L)
    _, na = _network(case['eq'], L)
    if C is None or case['cls'] != 'a':
        return
    _, nc = _network(case['eq'], C)
    compare_networks(ctx, na, nc)


# -------------------------------------------------------------------------------------------------- services

def run_services(case, ctx):
    from gnpy.tools.json_io import requests_from_json, disjunctions_from_json
    L = documents.canonical(case['doc'])
    case = dict(case, eq=documents.canonical(case['eq']))
    _labels(ctx, case, 'services')
    Y, C = conversions(ctx, 'services', L)
    eqa = load_eq(case['eq'])
    ra = requests_from_json(copy.deepcopy(L), eqa)
    da = disjunctions_from_json(copy.deepcopy(L))
    if C is None or case['cls'] != 'a':
        return
    eqc = load_eq(case['eq'])
    rc = requests_from_json(copy.deepcopy(C), eqc)
    dc = disjunctions_from_json(copy.deepcopy(C))
    for d in obj_diffs([vars(r) for r in ra], [vars(r) for r in rc]):
        ctx.violation(f'semantics:services:request.{_num_sig(d.split(":")[0])}', d)
    for d in obj_diffs([vars(x) for x in da], [vars(x) for x in dc]):
        ctx.violation(f'semantics:services:disjunction.{_num_sig(d.split(":")[0])}', d)


# -------------------------------------------------------------------------------------------------- small documents

_ONE_AMP_EQ = {'Edfa': [{'type_variety': 'adv', 'type_def': 'advanced_model', 'gain_flatmax': 26, 'gain_min': 15,
                         'p_max': 23, 'advanced_config_from_json': 'cfg.json', 'out_voa_auto': False,
                         'allowed_for_design': True}]}


def _sim_snapshot(doc):
    from gnpy.core.parameters import SimParams
    try:
        SimParams.set_params(copy.deepcopy(doc))
        p = SimParams()
        return {'nli': copy.deepcopy(vars(p.nli_params)), 'raman': copy.deepcopy(vars(p.raman_params))}
    finally:
        netgen.reset_sim_params()


def semantics_small(ctx, kind, L, C):
    from gnpy.tools.json_io import _spectrum_from_json
    if kind == 'spectrum':
        a = _spectrum_from_json(copy.deepcopy(L['spectrum']))
        b = _spectrum_from_json(copy.deepcopy(C['spectrum']))
        a = {float(k): vars(v) for k, v in a.items()}
        b = {float(k): vars(v) for k, v in b.items()}
    elif kind == 'sim-params':
        a, b = _sim_snapshot(L), _sim_snapshot(C)
    else:
        a = vars(load_eq(_ONE_AMP_EQ, {'cfg.json': L})['Edfa']['adv'])
        b = vars(load_eq(_ONE_AMP_EQ, {'cfg.json': C})['Edfa']['adv'])
    for d in obj_diffs(a, b):
        ctx.violation(f'semantics:{kind}:{_num_sig(d.split(":")[0])}', d)


def run_small(case, ctx):
    kind = case['kind']
    L = documents.canonical(case['doc'])
    _labels(ctx, case, kind)
    ctx.label('kind:' + kind)
    netgen.reset_sim_params()
    Y, C = conversions(ctx, kind, L)
    if C is None or case['cls'] != 'a':
        return
    semantics_small(ctx, kind, L, C)


@st.composite
def small_case(draw):
    kind = draw(st.sampled_from(['spectrum', 'sim-params', 'edfa-config']))
    c = draw({'spectrum': documents.spectrum_case, 'sim-params': documents.sim_params_case,
              'edfa-config': documents.edfa_config_case}[kind]())
    c['kind'] = kind
    return c


# -------------------------------------------------------------------------------------------------- seeds

def run_seed(case, ctx):
    """shipped example files (read at run time), optionally with moved values"""
    from pbt.runner import _gnpy_root
    from pathlib import Path
    kind = case['kind']
    path = Path(_gnpy_root()) / case['file']
    if not path.exists():
        path = Path('/repo') / case['file']     # scratch copies used for mutation runs hold the package only
    L = json.loads(path.read_text(encoding='utf-8'))
    documents_moves = case['moves']
    if documents_moves:
        documents.apply_jitter(L, kind, documents_moves)
    excess = bool(documents.excess_leaves(L, kind))
    ctx.label('kind:' + kind, 'file:' + case['file'].split('/')[-1],
              'moved:' + ('none' if not documents_moves else 'excess' if excess else 'within'))
    ctx.nontrivial(bool(documents_moves))
    netgen.reset_sim_params()
    Y, C = conversions(ctx, kind, L, check_passthrough=not documents_moves)
    if C is None or documents_moves or excess:
        return
    # unmodified shipped files: loaders must build equal objects from both forms
    if kind == 'equipment':
        # shipped libraries may name any shipped amplifier config file (default_config_from_json / advanced_config_...)
        extra = {}
        for rel in documents.SEEDS['edfa-config']:
            pth = Path(_gnpy_root()) / rel
            pth = pth if pth.exists() else Path('/repo') / rel
            extra[rel.split('/')[-1]] = json.loads(pth.read_text(encoding='utf-8'))
        for d in obj_diffs(load_eq(L, extra), load_eq(C, extra)):
            ctx.violation(f'semantics:equipment:{_num_sig(d.split(":")[0])}', d)
    elif kind in ('spectrum', 'sim-params', 'edfa-config'):
        semantics_small(ctx, kind, L, C)


# -------------------------------------------------------------------------------------------------- propagation

_FIGURES = ('snr', 'snr_01nm', 'osnr_ase', 'osnr_ase_01nm', 'osnr_nli', 'chromatic_dispersion', 'pmd', 'pdl', 'latency',
            'penalties')


def _propagate(eq_json, topo, src, dst):
    from gnpy.tools.worker_utils import designed_network
    from gnpy.topology.request import compute_constrained_path, propagate
    equipment, network = _network(eq_json, topo)
    network, req, _ = designed_network(equipment, network, source=src, destination=dst)
    path = compute_constrained_path(network, req)
    if not path:
        return None, network
    propagate(path, req, equipment)
    rx = path[-1]
    return {k: copy.deepcopy(getattr(rx, k, None)) for k in _FIGURES}, network


def run_propagation(case, ctx):
    import numpy as np
    L = documents.canonical(case['doc'])
    case = dict(case, eq=documents.canonical(case['eq']))
    ctx.label(f'class:{case["cls"]}')
    netgen.reset_sim_params()
    try:
        from gnpy.tools.convert_legacy_yang import legacy_to_yang, yang_to_legacy
        C = yang_to_legacy(legacy_to_yang(copy.deepcopy(L)))
        src, dst = f'trx R{case["src"]}', f'trx R{case["dst"]}'
        try:
            fa, na = _propagate(case['eq'], L, src, dst)
        except Exception as e:  # noqa  design / propagation failures of the legacy form are owned by C08 / C01
            ctx.label('skipped:legacy-form-failed:' + type(e).__name__)
            return
        if fa is None:
            ctx.label('skipped:no-path')
            return
        fc, nc = _propagate(case['eq'], C, src, dst)
        if fc is None:
            ctx.violation('propagation:no-path-from-yang-form', f'{src}->{dst}')
            return
        ctx.nontrivial(True)
        ctx.label('propagated')
        # designed networks equal element by element (same design decisions)
        compare_networks(ctx, na, nc)
        for k in _FIGURES:
            a, b = fa[k], fc[k]
            if isinstance(a, dict):
                d = obj_diff(a, b)
                if d:
                    ctx.violation(f'receiver:{k}', d)
                continue
            if a is None and b is None:
                continue
            a, b = np.asarray(a, dtype=float), np.asarray(b, dtype=float)
            # 1e-6 dB (DESIGN §3 C18); the two forms carry identical numbers, so the runs are in fact bit-identical
            if a.shape != b.shape or (np.abs(a - b) > 1e-6).any():
                ctx.violation(f'receiver:{k}', f'legacy {a.ravel()[:4]} vs yang {b.ravel()[:4]}')
    finally:
        netgen.reset_sim_params()


@st.composite
def propagation_case(draw):
    c = draw(documents.topology_case(n=(2, 3), for_propagation=True))
    # values within declared digits only: the two forms must then carry identical numbers
    documents.quantize(c['doc'], 'topology')
    c['cls'] = 'a'
    src = draw(st.integers(0, c['n'] - 1))
    dst = draw(st.integers(0, c['n'] - 2))
    c['src'], c['dst'] = src, dst + (dst >= src)
    return c


# -------------------------------------------------------------------------------------------------- member order

def run_key_order(case, ctx):
    """A legacy document stays valid when the members of an object are written in another order. Every loader goes
    through yang_to_legacy -> legacy_to_yang -> libyang (strict, ordered parsing), which wants the key leaves of a list
    entry first; the converters re-order three lists (route objects, lumped losses, Raman pumps) only."""
    kind = case['kind']
    name = case['key_last']['list']
    L = documents.canonical(case['doc'], case['key_last'])
    ctx.label('kind:' + kind, 'list:' + name)
    ctx.nontrivial(True)
    status, text = probe_in_child(L)
    ctx.label(f'outcome:{status}:{name}')
    if status == 'crash':
        ctx.violation(f'crash:{kind}:{name}', f'interpreter died in yang_to_legacy(legacy_to_yang(L)): {text}; '
                                              f'entry {case["key_last"]["key"]} of list {name} has its key member(s) last')
        return
    if status == 'invalid':
        if 'is missing its key' in text or 'Duplicate instance' in text:
            ctx.violation(f'rejected:{kind}:{name}', f'{text}; entry {case["key_last"]["key"]} of list {name} has its '
                                                     f'key member(s) last')
        else:
            ctx.violation(f'invalid-yang:{kind}:{_norm_msg(text)}', text)
        return
    # accepted out of process: same conversions in process, judged like any other document
    conversions(ctx, kind, L, check_passthrough=False)


FLOORS = {
    'equipment:class:b': (0.10, 'equipment'), 'equipment:equipment:trx-alias': (0.20, 'equipment'),
    'equipment:equipment:edfa-alias': (0.20, 'equipment'), 'equipment:equipment:si2': (0.15, 'equipment'),
    'equipment:equipment:span2': (0.15, 'equipment'), 'equipment:equipment:raman_efficiency': (0.08, 'equipment'),
    'topology:class:b': (0.05, 'topology'), 'topology:topology:per_degree_design_bands': (0.08, 'topology'),
    'topology:topology:loss_coef-per-frequency': (0.10, 'topology'), 'topology:topology:lumped_losses': (0.10, 'topology'),
    'topology:topology:RamanFiber': (0.10, 'topology'), 'topology:topology:per_degree_pch_out_db': (0.05, 'topology'),
    'services:services:synchronization': (0.05, 'services'), 'services:services:slot:multi': (0.05, 'services'),
    'propagation:propagated': (0.25, 'propagation'),
}

CHECKS = [
    Check('equipment', documents.equipment_doc(), run_equipment, quick=140, thorough=5000,
          doc='equipment library: conversions, loader equality, aliases'),
    Check('topology', documents.topology_case(), run_topology, quick=110, thorough=4000,
          doc='topology: conversions, network_from_json equality'),
    Check('services', documents.services_case(), run_services, quick=100, thorough=4000,
          doc='service file: conversions, PathRequest / Disjunction equality'),
    Check('small', small_case(), run_small, quick=130, thorough=5000,
          doc='spectrum, sim-params, amplifier advanced config'),
    Check('seeds', documents.seed_case(), run_seed, quick=50, thorough=1500,
          doc='shipped example files, plain and with moved values'),
    Check('propagation', propagation_case(), run_propagation, quick=36, thorough=1200,
          doc='design + propagation from both forms give the same receiver figures'),
    Check('key-order', documents.key_order_case(), run_key_order, quick=36, thorough=600,
          doc='keyed-list entry written with its key member last: converted in a child process (crash / rejected / ok)'),
]
