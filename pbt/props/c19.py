"""C19 — the reported response states exactly what was computed for each request (DESIGN §3 C19).

Batches with every kind of outcome through planning(); the JSON response (results_to_json) and the CSV export (jsontocsv) are
compared with an expectation rebuilt from the post-planning request objects and each request's OWN propagated paths.
"""
import copy
import csv
import io
import math
from hypothesis import strategies as st

from pbt.runner import Check
from pbt.gens import netgen, services

PROPERTY = 'C19'
RULE = ('Generated designed network (2-4 ROADMs) + batch of 2-6 requests mixing served, bidirectional, multi-slot (user N/M), '
        'aggregable duplicates (same end points/mode/spacing, different id and bandwidth, sometimes differing in the '
        'bidirectional flag), automatic-mode, and every blocking reason reachable from a loadable request (NO_PATH_WITH_CONSTRAINT, '
        'MODE_NOT_FEASIBLE, NO_FEASIBLE_MODE, NO_FEASIBLE_BAUDRATE_WITH_SPACING, NO_SPECTRUM, NOT_ENOUGH_RESERVED_SPECTRUM) '
        'through planning(), results_to_json() and jsontocsv(). Non-trivial = batch with >=2 distinct outcome kinds. '
        'distinct = sha1 of the case JSON.')
ASSUMPTIONS = ['which identical requests get aggregated is not prescribed; what is checked is that every original id appears in '
               'exactly one response, that a joined response sums the bandwidths and that its members really are identical '
               '(end points, transceiver, mode, spacing, channel count, power, route constraints, bidirectional flag)']

NOPATH = ('NO_PATH', 'NO_PATH_WITH_CONSTRAINT', 'NO_FEASIBLE_BAUDRATE_WITH_SPACING', 'NO_COMPUTED_SNR')


@st.composite
def batch_case(draw):
    si = draw(netgen.si_entry(tx_power='none', power=0))
    si['spacing'], si['baud_rate'] = 50e9, 32e9
    # system margins of several dB: requests served with less than twice the margin above the bare threshold exist
    si['sys_margins'] = draw(st.sampled_from([0, 2, 3, 5]))
    lib = draw(netgen.edfa_library(n=(2, 4), kinds=('variable_gain', 'fixed_gain')))
    hi = draw(st.booleans())       # library in which no mode can work (NO_FEASIBLE_MODE class)
    trx = [{'type_variety': 'T0', 'frequency': {'min': si['f_min'], 'max': si['f_max']}, 'mode': [
        {'format': 'm0', 'baud_rate': 32e9, 'OSNR': 70 if hi else draw(st.sampled_from([8, 11, 14, 17, 20, 23])), 'bit_rate': 100e9,
         'roll_off': 0.15, 'tx_osnr': 40, 'min_spacing': 50e9, 'cost': 1,
         # tables whose slopes start at 0, so that every route carries a non-zero penalty (CD ps/nm, PMD ps, PDL dB)
         'penalties': [{'chromatic_dispersion': 0, 'penalty_value': 0},
                       {'chromatic_dispersion': draw(st.sampled_from([4e3, 2e4, 1e5])), 'penalty_value': draw(st.sampled_from([0.5, 1.5]))},
                       {'pmd': 0, 'penalty_value': 0}, {'pmd': draw(st.sampled_from([5, 30])), 'penalty_value': 0.5},
                       {'pdl': 0, 'penalty_value': 0}, {'pdl': 8, 'penalty_value': 2}]},
        {'format': 'm1', 'baud_rate': 28e9, 'OSNR': 70 if hi else 9, 'bit_rate': 100e9, 'roll_off': 0.15,
         'tx_osnr': 45, 'min_spacing': 37.5e9, 'cost': 2},
        {'format': 'm2', 'baud_rate': 64e9, 'OSNR': 70 if hi else draw(st.sampled_from([14, 17])), 'bit_rate': 200e9,
         'roll_off': 0.15, 'tx_osnr': 40, 'min_spacing': 75e9, 'cost': 3},
        {'format': 'm3', 'baud_rate': 32e9, 'OSNR': 60, 'bit_rate': 400e9, 'roll_off': 0.15,
         'tx_osnr': 40, 'min_spacing': 50e9, 'cost': 1}]}]
    eq = draw(netgen.equipment(edfa=lib, si=si, trx=trx, span=draw(netgen.span_entry(max_length=150, eol=0))))
    chain_kw = {'spans': (1, 2), 'fiber_kw': {'lumped': False, 'per_freq_loss': False}}
    topo, truth = draw(netgen.topology(eq, n=(2, 4), extra_max=2, chain_kw=chain_kw, per_degree=False))
    reqs = []
    for i in range(draw(st.integers(2, 6))):
        src = draw(st.integers(0, truth['n'] - 1))
        dst = draw(st.integers(0, truth['n'] - 2))
        if dst >= src:
            dst += 1
        kind = draw(st.sampled_from(['plain', 'plain', 'bidir', 'multislot', 'duplicate', 'duplicate-bidir', 'auto',
                                     'blocked-route', 'blocked-mode', 'no-baudrate', 'fixed-n', 'small-m']))
        r = {'src': src, 'dst': dst, 'kind': kind, 'bidir': False, 'include': [], 'nm': None, 'mode': 'm0',
             'spacing': 50e9, 'nch': draw(st.sampled_from([None, 40])), 'bw': draw(st.sampled_from([100e9, 200e9]))}
        if kind == 'bidir':
            r['bidir'] = True
        elif kind == 'multislot':
            r.update(bw=300e9, nm=[[draw(st.sampled_from([None, 0, -40])), draw(st.sampled_from([None, 8]))], [None, None]])
        elif kind in ('duplicate', 'duplicate-bidir') and reqs:
            base = draw(st.sampled_from(reqs))
            r = dict(copy.deepcopy(base), kind=kind, bw=draw(st.sampled_from([100e9, 300e9])))
            if kind == 'duplicate-bidir':
                r['bidir'] = not base['bidir']
        elif kind == 'auto':
            r.update(mode=None, spacing=draw(st.sampled_from([50e9, 75e9])), bidir=draw(st.booleans()))
        elif kind == 'blocked-route':
            r['include'] = [['roadm', dst, 'STRICT'], ['roadm', src, 'STRICT']]
        elif kind == 'blocked-mode':
            r.update(mode='m3', bidir=draw(st.booleans()))
        elif kind == 'no-baudrate':
            r.update(mode=None, spacing=25e9)
        elif kind == 'fixed-n':
            r['nm'] = [[draw(st.sampled_from([0, 8, -100])), draw(st.sampled_from([4, 8]))]]
            r['bw'] = 100e9
        elif kind == 'small-m':
            r.update(mode=None, nm=[[None, 4]], bw=400e9)
        reqs.append(r)
    return {'eq': eq, 'topo': topo, 'truth': truth, 'requests': reqs}


def rq_json(i, r):
    inc = [(f'roadm R{k}', hop) for _, k, hop in r['include']]
    nm = [tuple(x) for x in r['nm']] if r['nm'] else None
    return services.request_json(i, f"trx R{r['src']}", f"trx R{r['dst']}", trx_type='T0', trx_mode=r['mode'],
                                 spacing=r['spacing'], nb_channel=r['nch'], bidir=r['bidir'], include=inc,
                                 path_bandwidth=r['bw'], nm=nm)


def metric(pm, name):
    vals = [m['accumulative-value'] for m in pm if m['metric-type'] == name]
    return vals[0] if len(vals) == 1 else ('<missing>' if not vals else '<duplicated>')


def expected_metrics(rx, req):
    """name -> exact value (str / given number) or ('2dec', unrounded receiver value)"""
    import numpy as np

    def pen(name):
        if name not in rx.penalties:
            return 'not evaluated'
        v = float(np.mean(rx.penalties[name]))
        return 'Infinity' if math.isinf(v) else ('2dec', v)
    return {'SNR-bandwidth': ('2dec', float(np.mean(rx.snr))), 'SNR-0.1nm': ('2dec', float(np.mean(rx.snr_01nm))),
            'OSNR-bandwidth': ('2dec', float(np.mean(rx.osnr_ase))), 'OSNR-0.1nm': ('2dec', float(np.mean(rx.osnr_ase_01nm))),
            'lowest_SNR-0.1nm': ('2dec', float(np.min(rx.snr_01nm))), 'biggest_SNR-0.1nm': ('2dec', float(np.max(rx.snr_01nm))),
            'PDL_penalty': pen('pdl'), 'CD_penalty': pen('chromatic_dispersion'), 'PMD_penalty': pen('pmd'),
            'reference_power': req.power, 'path_bandwidth': req.path_bandwidth}


def metric_ok(got, want):
    """a reported metric equals the receiver's value rounded to two decimals: it has at most two decimals and lies within
    half a unit of the second decimal of the unrounded value (either neighbour on a tie: binary floats have no exact ties,
    and numpy / Python round them differently)"""
    if isinstance(want, tuple):
        if isinstance(got, bool) or not isinstance(got, (int, float)):
            return False
        if math.isnan(got) or math.isnan(want[1]) or math.isinf(got) or math.isinf(want[1]):
            # an undefined receiver figure (e.g. the mean of penalties that are infinite on every channel minus ...) is
            # reported as it is: both sides must agree
            return (math.isnan(got) and math.isnan(want[1])) or got == want[1]
        return abs(got * 100 - round(got * 100)) < 1e-6 and abs(got - want[1]) <= 0.005 + 1e-9
    if isinstance(want, float) and isinstance(got, (int, float)):
        return abs(got - want) < 1e-12
    return got == want


def run(case, ctx):
    from gnpy.tools.worker_utils import designed_network, planning
    from gnpy.tools.json_io import results_to_json
    from gnpy.topology.request import jsontocsv
    from gnpy.core.exceptions import ServiceError
    netgen.reset_sim_params()
    try:
        equipment, network = netgen.build_network(case['eq'], case['topo'])
        designed_network(equipment, network)
    except Exception as e:  # noqa C08
        ctx.label('skipped:design-failed:' + type(e).__name__)
        return
    reqs = case['requests']
    data = {'path-request': [rq_json(i, r) for i, r in enumerate(reqs)]}
    pristine = copy.deepcopy(network)
    try:
        oms, pths, rpths, rqs, dsjn, result = planning(network, equipment, copy.deepcopy(data))
    except ServiceError as e:
        # a request rejected at load time stops the whole computation by documented design
        ctx.label('skipped:rejected-at-load')
        return
    response = results_to_json(result)['response']
    margins = case['eq']['SI'][0]['sys_margins']
    modes = {m['format']: m for m in case['eq']['Transceiver'][0]['mode']}
    # ---- 1. one response per (aggregated) request, every original id exactly once
    if [r['response-id'] for r in response] != [q.request_id for q in rqs]:
        ctx.violation('response-ids-differ-from-requests', f'{[r["response-id"] for r in response]} vs {[q.request_id for q in rqs]}')
        return
    seen = []
    for q in rqs:
        members = [int(x) for x in q.request_id.split(' | ')]
        seen += members
        if len(members) > 1:
            ctx.label('aggregated')
            if abs(q.path_bandwidth - sum(reqs[m]['bw'] for m in members)) > 1e-3:
                ctx.violation('aggregated-bandwidth-not-summed', f'{q.request_id}: {q.path_bandwidth} vs '
                                                                 f'{[reqs[m]["bw"] for m in members]}')
            first = reqs[members[0]]
            for m in members[1:]:
                for key in ('src', 'dst', 'mode', 'spacing', 'nch', 'include', 'bidir'):
                    if reqs[m][key] != first[key]:
                        ctx.violation(f'aggregated-requests-differ:{key}', f'{q.request_id}: request {members[0]} has {key}='
                                                                           f'{first[key]!r}, request {m} has {reqs[m][key]!r}')
    if sorted(seen) != list(range(len(reqs))):
        ctx.violation('request-missing-or-duplicated-in-response', f'{sorted(seen)} for {len(reqs)} requests')
        return
    outcomes = set()
    csv_rows = None
    try:
        buf = io.StringIO()
        jsontocsv({'response': copy.deepcopy(response)}, equipment, buf)
        csv_rows = list(csv.DictReader(io.StringIO(buf.getvalue())))
    except Exception as e:  # noqa
        from pbt.runner import classify_exception
        where, sig = classify_exception(e)
        if where == 'harness':
            raise
        ctx.violation(f'csv-export-raised:{sig}', f'{type(e).__name__}: {e}')
    if csv_rows is not None and len(csv_rows) != len(response):
        ctx.violation('csv-row-count', f'{len(csv_rows)} rows for {len(response)} responses')
        csv_rows = None
    for k, (q, pth, rpth, resp) in enumerate(zip(rqs, pths, rpths, response)):
        members = [int(x) for x in q.request_id.split(' | ')]
        reason = getattr(q, 'blocking_reason', None)
        outcomes.add(reason or ('served-bidir' if q.bidir else 'served'))
        tag = f'response {q.request_id} ({reason or "served"})'
        want_bidir = any(reqs[m]['bidir'] for m in members)
        if reason in NOPATH:
            if resp != {'response-id': q.request_id, 'no-path': {'no-path': reason}}:
                ctx.violation('blocked-response-content', f'{tag}: {str(resp)[:300]}')
            row_expect = {'response-id': q.request_id, 'Pass?': reason}
        else:
            if reason:
                if set(resp) != {'response-id', 'no-path'} or resp['no-path'].get('no-path') != reason:
                    ctx.violation('blocked-response-content', f'{tag}: keys {list(resp)}')
                    continue
                props = resp['no-path'].get('path-properties')
            else:
                if set(resp) != {'response-id', 'path-properties'}:
                    ctx.violation('served-response-content', f'{tag}: keys {list(resp)}')
                    continue
                props = resp['path-properties']
            if props is None:
                ctx.violation('path-properties-missing', tag)
                continue
            # ---- route objects
            objs = [o['path-route-object'] for o in props['path-route-objects']]
            if [o['index'] for o in objs] != list(range(len(objs))):
                ctx.violation('route-object-indices', tag)
            hops = [o['num-unnum-hop']['node-id'] for o in objs if 'num-unnum-hop' in o]
            if hops != [e.uid for e in pth]:
                ctx.violation('reported-route-differs-from-computed-path', f'{tag}: {hops[:6]} vs {[e.uid for e in pth][:6]}')
            labels = [o['label-hop'] for o in objs if 'label-hop' in o]
            trans = [o['transponder'] for o in objs if 'transponder' in o]
            if any(t != {'transponder-type': q.tsp, 'transponder-mode': q.tsp_mode} for t in trans) or len(trans) != 2:
                ctx.violation('transponder-objects', f'{tag}: {trans} vs type {q.tsp} mode {q.tsp_mode}')
            if reason:
                if labels:
                    ctx.violation('labels-on-blocked-request', f'{tag}: {labels[:2]}')
                if q.N is not None or q.M is not None:
                    ctx.violation('blocked-request-keeps-N-M', f'{tag}: N={q.N} M={q.M}')
            else:
                want = [{'N': n, 'M': m} for n, m in zip(q.N, q.M)]
                if len(labels) != len(pth) or any(lab != want for lab in labels):
                    ctx.violation('label-objects', f'{tag}: {labels[:1]} x{len(labels)} vs {want} x{len(pth)}')
                # every hop is followed by its label object
                kinds = ['hop' if 'num-unnum-hop' in o else 'label' if 'label-hop' in o else 'trx' for o in objs]
                seq = ''.join(k[0] for k in kinds)
                import re as _re
                if not _re.fullmatch(r'(hl)t(hl)*(hl)t', seq):
                    ctx.violation('route-object-order', f'{tag}: {seq}')
            # ---- metrics of THIS request's own forward / reverse propagation
            exp = expected_metrics(pth[-1], q)
            import numpy as _np
            if _np.isnan(_np.asarray(pth[-1].snr_01nm, dtype=float)).any():
                # a NaN GSNR arises when the first-order NLI estimate exceeds the channel power (a design launching far more
                # than +10 dBm per channel, outside the domain the properties are stated for): nothing to report faithfully
                ctx.label('not-judged:receiver-gsnr-undefined')
                continue
            for name, val in exp.items():
                if isinstance(val, tuple) and (math.isnan(val[1]) or math.isinf(val[1])):
                    ctx.label(f'receiver-figure-undefined:{name}')
                got = metric(props['path-metric'], name)
                if not metric_ok(got, val):
                    ctx.violation(f'metric-differs-from-receiver:{name}', f'{tag}: reported {got!r}, receiver gives {val!r}')
                    break
            if want_bidir and rpth:
                if 'z-a-path-metric' not in props:
                    ctx.violation('bidirectional-without-reverse-metrics', tag)
                else:
                    exp_r = expected_metrics(rpth[-1], q)
                    for name, val in exp_r.items():
                        got = metric(props['z-a-path-metric'], name)
                        if not metric_ok(got, val):
                            ctx.violation(f'reverse-metric-differs-from-reverse-receiver:{name}',
                                          f'{tag}: reported {got!r}, reverse receiver gives {val!r}')
                            break
                    # independent reference: the same reverse route propagated again on copies of the elements of the
                    # network as it was before planning (the objects kept by the planner may be shared between requests)
                    if sum(bool(x.bidir) for x in rqs) >= 2 and not reason:
                        from gnpy.topology.request import propagate
                        fresh = {n.uid: n for n in pristine.nodes()}
                        again = copy.deepcopy([fresh[e.uid] for e in rpth])
                        propagate(again, q, equipment)
                        exp_i = expected_metrics(again[-1], q)
                        ctx.label('reverse-direction-recomputed')
                        for name, val in exp_i.items():
                            got = metric(props['z-a-path-metric'], name)
                            if not metric_ok(got, val):
                                ctx.violation(f'reverse-metric-differs-from-independent-propagation:{name}',
                                              f'{tag}: reported {got!r}, an independent propagation of the reverse route '
                                              f'gives {val!r}')
                                break
            elif want_bidir and not rpth and not reason:
                ctx.violation('bidirectional-request-without-reverse-direction', f'{tag}: members {members} '
                                                                                 f'bidir {[reqs[m]["bidir"] for m in members]}')
            elif not want_bidir and 'z-a-path-metric' in props:
                ctx.violation('reverse-metrics-on-unidirectional-request', tag)
            mode = modes.get(q.tsp_mode)
            row_expect = {'response-id': q.request_id, 'source': pth[0].uid, 'destination': pth[-1].uid,
                          'transponder-type': q.tsp, 'transponder-mode': q.tsp_mode or ''}
            if reason:
                row_expect['Pass?'] = reason
            else:
                row_expect['Pass?'] = 'True'
                row_expect['spectrum (N,M)'] = f'{list(q.N)}, {list(q.M)}'
            if mode:
                row_expect['min required OSNR (inc. margin)'] = repr(mode['OSNR'] + margins)
                # the CSV states the values of the response (compared with the receiver above)
                row_expect['SNR-0.1nm (min)'] = repr(metric(props['path-metric'], 'lowest_SNR-0.1nm'))
                row_expect['SNR-0.1nm (average)'] = repr(metric(props['path-metric'], 'SNR-0.1nm'))
                row_expect['OSNR-0.1nm (average)'] = repr(metric(props['path-metric'], 'OSNR-0.1nm'))
            row_expect['path'] = ' | '.join(e.uid for e in pth)
            # a served request cleared the margin-inclusive threshold: the worst channel is above it
            if not reason and mode and exp['lowest_SNR-0.1nm'][1] < mode['OSNR'] + margins - 0.005 - 1e-9:
                ctx.violation('served-although-below-threshold', f'{tag}: min SNR {exp["lowest_SNR-0.1nm"][1]} < {mode["OSNR"] + margins}')
        if csv_rows is not None:
            row = csv_rows[k]
            for key, val in row_expect.items():
                got = row.get(key)
                ok = got == str(val)
                if not ok:
                    try:
                        ok = abs(float(got) - float(val)) < 1e-9
                    except (TypeError, ValueError):
                        ok = False
                if not ok:
                    ctx.violation(f'csv-field-differs:{key}', f'{tag}: csv {got!r}, expected {val!r}')
                    break
    for o in outcomes:
        ctx.label('outcome:' + str(o))
    for r in reqs:
        ctx.label('kind:' + r['kind'])
    ctx.nontrivial(len(outcomes) >= 2)


CHECKS = [Check('response', batch_case(), run, quick=1200, thorough=40000, doc='JSON response + CSV vs computed objects')]
