"""C20 — spreadsheet inputs convert to the network and services they describe (DESIGN §3 C20).

A generated workbook *model* (pbt/gens/workbooks.py) is rendered to a real .xlsx (openpyxl, temp dir under /dev/shm)
and to an in-memory xlrd-compatible workbook (the .xls branch); both are converted by the real
`xls_to_json_data` / `read_service_sheet` and compared with an oracle computed from the model only:
sites -> elements, links -> one fibre per direction with the row's parameters, wiring walked through the produced
connections, amplifier settings on the amplifier facing the named neighbour, documented rejections, service rows.
"""
import copy
import json
import math
import shutil
import tempfile
from pathlib import Path

from hypothesis import strategies as st

from pbt.runner import Check
from pbt.gens import workbooks as wbk
from pbt.gens import netgen

PROPERTY = 'C20'
RULE = ('Hypothesis-generated workbook model: 2-7 sites typed ROADM/ILA/FUSED/blank/other, spanning tree + extra '
        'links in random orientation and order, link rows one-sided / two-sided (all west cells different) / mixed, '
        'optional Eqpt sheet (none/partial/full, 12 or 14 columns, fused variety, one- or two-sided rows), optional '
        'Roadms sheet (per-degree power, type variety, impairment ids), optional Service sheet (1-4 rows, numeric or '
        'text ids, route lists of ROADM names or an ILA hop, strictness, disjoint-from cells), trailing ghost rows; '
        'rendered to .xlsx and to an xlrd stub. invalid = valid model + exactly one documented rule violation (13 '
        'rules). shapes = tagged classes whose treatment the documentation decides (FUSED of degree 1/3, self link, '
        'automatically typed ROADM with Eqpt rows / named by city in a route, numeric impairment id, other "is loose?" '
        'values). fixtures = shipped workbooks read unchanged through the real xlrd/openpyxl readers. '
        'Non-trivial (valid) = workbook with >=1 link row whose filled west cells differ from east AND >=1 ILA or '
        'FUSED site AND (an Eqpt row or a Service row); invalid, shapes, fixtures: every case. '
        'distinct = sha1 of the case JSON.')
ASSUMPTIONS = [
    'equipment library: gnpy/example-data/eqpt_config.json; amplifier, fibre, ROADM and transceiver names of generated '
    'workbooks are taken from it; fibres <= 120 km so that auto-design never splits a span',
    'city names are drawn from a pool in which no name is a substring of another (route-name correction matches by '
    'substring); cable ids and city names are text cells as the documentation requires',
    'blank cells: only documented defaults are judged (distance 80, fibre SSMF, loss 0.2, west := east); blank '
    'connector/PMD cells and blank amplifier cells must not produce a non-zero setting',
    'length tolerance 0.5 m (the converter rounds to 3 decimals), PMD relative 1e-6, unit conversions relative 1e-12',
    'route lists name ROADM sites (by city name when the Type cell says ROADM, else by `roadm <city>`), each at most '
    'once, as docs/excel.rst asks; optionally one ILA site followed by the next non-fused site of one direction '
    '(rule in the docstring/comments of correct_xls_route_list and tests/test_parser.py)',
    'spacing >= 75 GHz and known transceiver/mode names, so that every generated request is loadable',
    'Eqpt rows are generated for ROADM and ILA sites only (the sheet is documented for those), Roadms rows only for '
    'degrees whose amplifiers are named in the Eqpt sheet',
]

EXAMPLE_EQPT = '/repo/gnpy/example-data/eqpt_config.json'
TESTS_EQPT = '/repo/tests/data/eqpt_config.json'
_EQ_CACHE = {}


def eq_json(path=EXAMPLE_EQPT):
    if path not in _EQ_CACHE:
        _EQ_CACHE[path] = json.loads(Path(path).read_text())
    return _EQ_CACHE[path]


def _num_eq(a, b, rtol=1e-12):
    if a is None or b is None or isinstance(a, (str, bool)) or isinstance(b, (str, bool)):
        return a == b
    return abs(a - b) <= rtol * max(abs(a), abs(b))


# ================================================================================================== conversion

class Outcome:
    def __init__(self, kind, value):
        self.kind, self.value = kind, value      # 'ok' json | 'topology-error' msg | 'other-error' (Type, where, msg)


def _convert(path, catch_all):
    from gnpy.tools.convert import xls_to_json_data
    from gnpy.core.exceptions import NetworkTopologyError
    try:
        return Outcome('ok', xls_to_json_data(path))
    except NetworkTopologyError as e:
        return Outcome('topology-error', str(e))
    except Exception as e:  # noqa  -- only reached with catch_all: turned into a *specific* violation by the caller
        if not catch_all:
            raise
        import traceback
        tb = traceback.extract_tb(e.__traceback__)[-1]
        return Outcome('other-error', (type(e).__name__, tb.name, str(e)))


class Rendered:
    """context: model -> temp dir with wb.xlsx, stub installed for wb.xls; removed/restored on exit"""

    def __init__(self, sheets):
        self.sheets = sheets

    def __enter__(self):
        self.dir = tempfile.mkdtemp(dir='/dev/shm', prefix='c20-')
        try:
            self.xlsx = Path(self.dir) / 'wb.xlsx'
            self.xls = Path(self.dir) / 'wb.xls'
            wbk.write_xlsx(self.sheets, self.xlsx)
            self._cm = wbk.stubbed_xls(self.sheets, self.xls)
            self._cm.__enter__()
        except BaseException:
            shutil.rmtree(self.dir, ignore_errors=True)
            raise
        return self

    def __exit__(self, *exc):
        try:
            self._cm.__exit__(*exc)
        finally:
            shutil.rmtree(self.dir, ignore_errors=True)
        return False


# ================================================================================================== topology oracle

def resolved_links(model):
    """{(from, to): [dist, fiber, lineic, con_in, con_out, pmd, cable]} with the documented defaulting; None = blank
    cell without a judged default"""
    out = {}
    for lk in model['links']:
        east = list(lk['east'])
        west = [w if w is not None else e for w, e in zip(lk['west'], east)]
        for side in (east, west):
            if side[0] is None:
                side[0] = 80
            if side[1] is None:
                side[1] = 'SSMF'
            if side[2] is None:
                side[2] = 0.2
        out[(lk['a'], lk['z'])] = east
        out[(lk['z'], lk['a'])] = west
    return out


def check_amp(ctx, el, cells, side, where):
    """element `el` must carry the settings of one side (6 cells) of an Eqpt row"""
    amp_type = cells[0]
    if isinstance(amp_type, str) and amp_type.lower() == 'fused':
        if el['type'] != 'Fused':
            ctx.violation(f'eqpt-{side}-fused-not-fused', f'{where}: {el}')
        return
    if el['type'] != 'Edfa':
        ctx.violation(f'eqpt-{side}-amp-wrong-element-type', f'{where}: {el}')
        return
    tv = el.get('type_variety')
    if amp_type is None:
        if tv not in (None, '', 'std_medium_gain'):
            ctx.violation(f'eqpt-{side}-type-variety-from-nowhere', f'{where}: blank amp type, element has {tv!r}')
    elif tv != amp_type:
        ctx.violation(f'eqpt-{side}-type-variety', f'{where}: sheet {amp_type!r}, element {tv!r}')
    op = el.get('operational') or {}
    for key, idx in (('gain_target', 2), ('tilt_target', 3), ('out_voa', 4), ('in_voa', 1), ('delta_p', 5)):
        want, got = cells[idx], op.get(key)
        if want is None:
            if got not in (None, 0):
                ctx.violation(f'eqpt-{side}-setting-from-nowhere:{key}', f'{where}: blank cell, element has {got!r}')
        elif got is None or not _num_eq(got, want):
            ctx.violation(f'eqpt-{side}-setting:{key}', f'{where}: sheet {want!r}, element {got!r}')


def check_topology(ctx, model, data):
    """Everything the property states about the converted JSON of a valid workbook, from the model alone.
    Returns a dict of facts (uids by role) for the follow-up checks, or None when the structure is too broken."""
    els, conns = data['elements'], data['connections']
    by_uid = {}
    for e in els:
        if e['uid'] in by_uid:
            ctx.violation('duplicate-uid', e['uid'])
        by_uid[e['uid']] = e
    succ, pred = {}, {}
    seen = set()
    for c in conns:
        f, t = c['from_node'], c['to_node']
        for end in (f, t):
            if end not in by_uid:
                ctx.violation('connection-endpoint-missing', f'{c}')
                return None
        if (f, t) in seen:
            ctx.violation('duplicate-connection', f'{c}')
        seen.add((f, t))
        succ.setdefault(f, []).append(t)
        pred.setdefault(t, []).append(f)

    eff = wbk.effective_types(model)
    nb = wbk.neighbours(model)
    want_dir = resolved_links(model)
    eq_rows = {}
    for e in (model.get('eqpt') or []):
        eq_rows.setdefault(e['a'], []).append(e)
    ncol = model.get('eqpt_cols', 14)

    def side_cells(row, side):
        cells = list(row[side])
        if ncol == 12:
            cells[5] = None
        return cells

    def site_of(uid):
        el = by_uid[uid]
        if el['type'] == 'Fiber':
            return None
        return ((el.get('metadata') or {}).get('location') or {}).get('city')

    # ---- fibres: one per direction, in line, between the right sites, with the row's parameters
    fibres = [e for e in els if e['type'] == 'Fiber']
    fibre_of = {}
    for f in fibres:
        p, s = pred.get(f['uid'], []), succ.get(f['uid'], [])
        if len(p) != 1 or len(s) != 1:
            ctx.violation('fibre-not-in-line', f'{f["uid"]}: predecessors {p}, successors {s}')
            continue
        key = (site_of(p[0]), site_of(s[0]))
        if key not in want_dir:
            ctx.violation('fibre-between-unlinked-sites', f'{f["uid"]}: {p[0]} -> {s[0]}')
            continue
        if key in fibre_of:
            ctx.violation('two-fibres-one-direction', f'{key}: {fibre_of[key]["uid"]} and {f["uid"]}')
            continue
        fibre_of[key] = f
        want = want_dir[key]
        row = next(lk for lk in model['links'] if (lk['a'], lk['z']) in (key, key[::-1]))
        side = 'east' if (row['a'], row['z']) == key else 'west'
        prm = f.get('params') or {}
        where = f'link row {row["a"]}-{row["z"]} direction {key[0]}->{key[1]} ({side})'
        if prm.get('length_units') != 'km' or prm.get('length') is None \
                or abs(prm['length'] - want[0]) > 5e-4 + 1e-9:
            ctx.violation(f'fibre-length:{side}', f'{where}: sheet {want[0]!r} km, fibre {prm.get("length")!r} '
                                                  f'{prm.get("length_units")!r}')
        if f.get('type_variety') != want[1]:
            ctx.violation(f'fibre-type:{side}', f'{where}: sheet {want[1]!r}, fibre {f.get("type_variety")!r}')
        if prm.get('loss_coef') is None or not _num_eq(prm.get('loss_coef'), want[2]):
            ctx.violation(f'fibre-loss:{side}', f'{where}: sheet {want[2]!r}, fibre {prm.get("loss_coef")!r}')
        for name, idx in (('con_in', 3), ('con_out', 4)):
            got = prm.get(name)
            if want[idx] is None:
                if got not in (None, 0.5):
                    ctx.violation(f'fibre-{name}-from-nowhere:{side}', f'{where}: blank cells, fibre has {got!r}')
            elif got is None or not _num_eq(got, want[idx]):
                ctx.violation(f'fibre-{name}:{side}', f'{where}: sheet {want[idx]!r}, fibre {got!r}')
        got = prm.get('pmd_coef')
        if want[5] is not None:
            ref = want[5] * 1e-12 / math.sqrt(want[0] * 1000.0)
            if got is None or not _num_eq(got, ref, 1e-6):
                ctx.violation(f'fibre-pmd:{side}', f'{where}: sheet {want[5]!r} ps over {want[0]} km -> {ref!r} '
                                                   f's/sqrt(m), fibre {got!r}')
    if len(fibres) != 2 * len(model['links']):
        ctx.violation('fibre-count', f'{len(fibres)} fibres for {len(model["links"])} link rows')
    missing = [k for k in want_dir if k not in fibre_of]
    if missing:
        ctx.violation('direction-without-fibre', f'{missing}')
        return None

    facts = {'booster': {}, 'preamp': {}, 'line': {}}
    n_expected = len(fibres)
    # ---- sites
    for site in model['sites']:
        x = site['city']
        kind = eff[x]
        here = [e for e in els if e['type'] != 'Fiber' and site_of(e['uid']) == x]
        rows = eq_rows.get(x, [])
        if kind == 'ROADM':
            r_uid, t_uid = f'roadm {x}', f'trx {x}'
            n_expected += 2 + 2 * len(rows)
            if by_uid.get(r_uid, {}).get('type') != 'Roadm' or by_uid.get(t_uid, {}).get('type') != 'Transceiver':
                ctx.violation('roadm-site-without-roadm-and-trx', f'site {x} ({site["type"]!r}, degree {len(nb[x])}): '
                                                                  f'{[(e["uid"], e["type"]) for e in here]}')
                continue
            if len([e for e in here if e['type'] in ('Roadm', 'Transceiver')]) != 2:
                ctx.violation('roadm-site-extra-roadm-or-trx', f'site {x}: {[(e["uid"], e["type"]) for e in here]}')
            if (t_uid, r_uid) not in seen or (r_uid, t_uid) not in seen:
                ctx.violation('trx-roadm-connection-missing', f'site {x}')
            row_by_z = {r['z']: r for r in rows}
            egress, ingress = {t_uid}, {t_uid}
            for n in nb[x]:
                fo, fi = fibre_of[(x, n)]['uid'], fibre_of[(n, x)]['uid']
                row = row_by_z.get(n)
                p, s = pred[fo][0], succ[fi][0]
                if row is None:
                    if p != r_uid:
                        ctx.violation('roadm-egress-not-direct', f'{x}->{n}: no Eqpt row, fibre fed by {p}')
                    if s != r_uid:
                        ctx.violation('roadm-ingress-not-direct', f'{n}->{x}: no Eqpt row, fibre feeds {s}')
                    egress.add(fo)
                    ingress.add(fi)
                    facts['booster'][(x, n)] = None
                    continue
                where = f'Eqpt row {x}->{n}'
                if p == r_uid or site_of(p) != x or pred.get(p) != [r_uid] or succ.get(p) != [fo]:
                    ctx.violation('eqpt-east-not-between-roadm-and-fibre',
                                  f'{where}: fibre {fo} fed by {p} (pred {pred.get(p)}, succ {succ.get(p)})')
                else:
                    check_amp(ctx, by_uid[p], side_cells(row, 'east'), 'east', where)
                    egress.add(p)
                    facts['booster'][(x, n)] = p
                if s == r_uid or site_of(s) != x or succ.get(s) != [r_uid] or pred.get(s) != [fi]:
                    ctx.violation('eqpt-west-not-between-fibre-and-roadm',
                                  f'{where}: fibre {fi} feeds {s} (pred {pred.get(s)}, succ {succ.get(s)})')
                else:
                    check_amp(ctx, by_uid[s], side_cells(row, 'west'), 'west', where)
                    ingress.add(s)
                    facts['preamp'][(x, n)] = s
            if not ctx.violations and (set(succ.get(r_uid, [])) != egress or set(pred.get(r_uid, [])) != ingress):
                ctx.violation('roadm-unexpected-connections', f'{r_uid}: successors {succ.get(r_uid)}, expected '
                                                              f'{sorted(egress)}; predecessors {pred.get(r_uid)}')
            check_roadm_element(ctx, model, site, by_uid[r_uid], facts)
        else:
            n_expected += 2
            if len(nb[x]) != 2 or nb[x][0] == nb[x][1]:
                ctx.violation('harness:line-site-degree', f'{x}')     # generator guarantees this
                continue
            if len(here) != 2:
                ctx.violation('line-site-element-count', f'site {x} ({kind}): {[(e["uid"], e["type"]) for e in here]}')
            mids = []
            for src, dst in (nb[x], nb[x][::-1]):
                fi, fo = fibre_of[(src, x)]['uid'], fibre_of[(x, dst)]['uid']
                mid = succ[fi][0]
                if site_of(mid) != x or succ.get(mid) != [fo] or pred.get(mid) != [fi]:
                    ctx.violation('line-site-not-wired-through', f'site {x} ({kind}) {src}->{dst}: fibre {fi} feeds '
                                                                 f'{mid} whose successors are {succ.get(mid)}')
                    continue
                mids.append(mid)
                facts['line'][(x, dst)] = mid
                el = by_uid[mid]
                where = f'site {x} direction {src}->{dst}'
                if kind == 'FUSED':
                    if el['type'] != 'Fused':
                        ctx.violation('fused-site-element-not-fused', f'{where}: {el["uid"]} is {el["type"]}')
                elif not rows:
                    op = el.get('operational') or {}
                    if el['type'] != 'Edfa' or el.get('type_variety') or any(v not in (None, 0) for v in op.values()):
                        ctx.violation('ila-without-row-not-a-plain-amplifier', f'{where}: {el}')
                else:
                    row = rows[0]
                    if row['z'] == dst:
                        check_amp(ctx, el, side_cells(row, 'east'), 'east', f'Eqpt row {x}->{row["z"]}, {where}')
                    else:
                        check_amp(ctx, el, side_cells(row, 'west'), 'west', f'Eqpt row {x}->{row["z"]}, {where}')
            if len(mids) == 2 and mids[0] == mids[1]:
                ctx.violation('line-site-one-element-both-directions', f'site {x}: {mids[0]}')
    if not ctx.violations and len(els) != n_expected:
        ctx.violation('unexpected-elements', f'{len(els)} elements, model explains {n_expected}')
    return facts


def check_roadm_element(ctx, model, site, el, facts):
    x = site['city']
    prm = el.get('params') or {}
    for cell, key in ((site.get('booster'), 'booster_variety_list'), (site.get('preamp'), 'preamp_variety_list')):
        want = cell.split(' | ') if cell else []
        got = (prm.get('restrictions') or {}).get(key) or []
        if got != want:
            ctx.violation(f'roadm-restriction:{key}', f'site {x}: sheet {want}, element {got}')
    rows = [r for r in (model.get('roadms') or []) if r['a'] == x]
    want_p, want_i, want_v = {}, [], None
    for r in rows:
        booster = facts['booster'].get((x, r['z']))
        if r.get('power') is not None:
            want_p[booster] = r['power']
        if r.get('from') is not None and r.get('ids') is not None:
            ids = [int(r['ids'])] if not isinstance(r['ids'], str) else [int(v) for v in r['ids'].split(' | ')]
            for frm, i in zip(r['from'].split(' | '), ids):
                want_i.append((facts['preamp'].get((x, frm)), booster, i))
        if r.get('variety') is not None:
            want_v = r['variety']
    got_p = prm.get('per_degree_pch_out_db') or {}
    if set(got_p) != set(want_p) or any(not _num_eq(got_p[k], v) for k, v in want_p.items()):
        ctx.violation('roadm-per-degree-power', f'site {x}: sheet {want_p} (keyed by the amplifier facing Node Z), '
                                                f'element {got_p}')
    got_i = [(d.get('from_degree'), d.get('to_degree'), d.get('impairment_id'))
             for d in prm.get('per_degree_impairments') or []]
    if sorted(map(str, got_i)) != sorted(map(str, want_i)):
        ctx.violation('roadm-per-degree-impairments', f'site {x}: sheet {want_i}, element {got_i}')
    if el.get('type_variety') != want_v and not (want_v is None and el.get('type_variety') in (None, 'default')):
        ctx.violation('roadm-type-variety', f'site {x}: sheet {want_v!r}, element {el.get("type_variety")!r}')


# ================================================================================================== services oracle

def next_site(model, site, towards):
    """first site that is not FUSED when leaving `site` through its neighbour `towards` (model only)"""
    eff = wbk.effective_types(model)
    nb = wbk.neighbours(model)
    prev, cur = site, towards
    for _ in range(len(model['sites']) + 1):
        if eff[cur] != 'FUSED':
            return cur
        prev, cur = cur, next(n for n in nb[cur] if n != prev)
    return None


def expected_services(model, facts=None):
    reqs, syncs = [], []
    eff = wbk.effective_types(model)
    nb = wbk.neighbours(model)
    for row in model['service']:
        rid = row['id'] if isinstance(row['id'], str) else str(int(row['id']))
        te = {'trx_type': row['trx'], 'trx_mode': row['mode'],
              'spacing': row['spacing'] * 1e9,
              'max-nb-of-channel': None if row['nch'] is None else int(row['nch']),
              'output-power': None if row['power'] is None else 10 ** (row['power'] / 10) * 1e-3,
              'path_bandwidth': row['bw'] * 1e9}
        hop = 'STRICT' if row['loose'] == 'no' else 'LOOSE'
        route = []
        if row['path']:
            typed = row['path'].split(' | ')
            kept = 0
            for pos, name in enumerate(typed):
                if name == row.get('unusable'):
                    continue        # loose route: a hop that cannot be a constraint is skipped, the others keep their order
                i, kept = kept, kept + 1
                if eff.get(name) == 'ILA':
                    # documented in correct_xls_route_list: the amplifier of the ILA site whose next (non fused) site
                    # is named later in the list
                    facing = [d for d in nb[name] if next_site(model, name, d) in typed[pos + 1:]
                              and next_site(model, name, d) not in typed[:pos]]
                    uid = (facts or {'line': {}})['line'].get((name, facing[0])) if len(facing) == 1 else None
                    route.append((i, uid, hop))
                else:
                    route.append((i, name if name.startswith('roadm ') else f'roadm {name}', hop))
        reqs.append({'request-id': rid, 'source': f'trx {row["src"]}', 'destination': f'trx {row["dst"]}',
                     'bidirectional': bool(model.get('bidir')), 'te': te, 'route': route})
        d = row['disjoint']
        if d is not None:
            others = [str(int(d))] if not isinstance(d, str) else d.split(' | ')
            syncs.append({'synchronization-id': rid, 'ids': [rid] + others})
    return reqs, syncs


def check_services(ctx, model, data, tag='', facts=None):
    reqs, syncs = expected_services(model, facts)
    got = data.get('path-request', [])
    if len(got) != len(reqs):
        ctx.violation(f'service{tag}-request-count', f'{len(model["service"])} rows, {len(got)} requests')
        return
    for want, g in zip(reqs, got):
        where = f'row id {want["request-id"]!r}'
        for k in ('request-id', 'source', 'destination', 'bidirectional'):
            if g.get(k) != want[k]:
                ctx.violation(f'service{tag}-{k}', f'{where}: expected {want[k]!r}, got {g.get(k)!r}')
        for k, src in (('src-tp-id', 'source'), ('dst-tp-id', 'destination')):
            if g.get(k) != want[src]:
                ctx.violation(f'service{tag}-{k}', f'{where}: expected {want[src]!r}, got {g.get(k)!r}')
        te = (g.get('path-constraints') or {}).get('te-bandwidth') or {}
        for k, v in want['te'].items():
            gv = te.get(k)
            ok = gv == v if (v is None or isinstance(v, str)) else (gv is not None and _num_eq(gv, v))
            if k == 'max-nb-of-channel' and v is not None:
                ok = ok and isinstance(gv, int)
            if not ok:
                ctx.violation(f'service{tag}-{k}', f'{where}: expected {v!r}, got {gv!r}')
        ero = (g.get('explicit-route-objects') or {}).get('route-object-include-exclude') or []
        got_route = [(o.get('index'), (o.get('num-unnum-hop') or {}).get('node-id'),
                      (o.get('num-unnum-hop') or {}).get('hop-type')) for o in ero]
        if got_route != want['route']:
            sig = 'route-list'
            if [r[:2] for r in got_route] == [r[:2] for r in want['route']]:
                sig = 'route-strictness'
            elif len(got_route) == len(want['route']):
                # only the east / west amplifier of an ILA hop differs, and that ILA site has another ILA site as neighbour
                differing = [(g, w) for g, w in zip(got_route, want['route']) if g != w]
                eff_ = wbk.effective_types(model)
                nb_ = wbk.neighbours(model)

                def ila_site(uid):
                    return next((c for c in eff_ if eff_[c] == 'ILA' and uid and uid.endswith(f' in {c}') or
                                 (uid and f' in {c} to ' in uid)), None)
                sites = [ila_site(g[1]) for g, w in differing]
                if all(sites) and all(ila_site(w[1]) == s_ for (g, w), s_ in zip(differing, sites)) and \
                        all(any(eff_.get(n) == 'ILA' for n in nb_[s_]) for s_ in sites):
                    sig = 'route-list:wrong-amplifier-of-an-ila-next-to-another-ila'
            ctx.violation(f'service{tag}-{sig}', f'{where}: sheet path {want["route"]}, request {got_route}')
    got_sync = [{'synchronization-id': s.get('synchronization-id'),
                 'ids': list((s.get('svec') or {}).get('request-id-number') or [])}
                for s in data.get('synchronization') or []]
    if got_sync != syncs:
        ctx.violation(f'service{tag}-synchronization', f'expected {syncs}, got {got_sync}')


# ================================================================================================== runs

def load_and_design(topo_json, eqpt_path=EXAMPLE_EQPT):
    from gnpy.tools.json_io import network_from_json
    from gnpy.tools.worker_utils import designed_network
    equipment = netgen.load_equipment(eq_json(eqpt_path))
    network = network_from_json(copy.deepcopy(topo_json), equipment)
    network, _, _ = designed_network(equipment, network)
    return equipment, network


def _labels_valid(ctx, model):
    eff = wbk.effective_types(model)
    deg = wbk.degrees(model)
    for s in model['sites']:
        t = s['type']
        decl = t if t in ('ROADM', 'ILA', 'FUSED') else ('blank' if t is None else 'other')
        ctx.label(f'site:{decl}->{eff[s["city"]]}')
        if decl in ('ILA', 'blank', 'other') and deg[s['city']] != 2:
            ctx.label('site:retyped-to-roadm')
    asym = False
    for lk in model['links']:
        filled = [w for w in lk['west'] if w is not None]
        if not filled:
            ctx.label('link:one-sided')
        elif len(filled) == 7:
            ctx.label('link:two-sided')
        else:
            ctx.label('link:mixed')
        if any(w is not None and w != e for w, e in zip(lk['west'], lk['east'])):
            asym = True
    eq = model.get('eqpt')
    ctx.label('eqpt:none' if eq is None else f'eqpt:sheet-{model.get("eqpt_cols")}col')
    for e in eq or []:
        ctx.label(f'eqpt-row:{eff.get(e["a"])}:' + ('one-sided' if all(c is None for c in e['west']) else 'two-sided'))
        if 'fused' in (e['east'][0], e['west'][0]):
            ctx.label(f'eqpt-row:fused-variety:{eff.get(e["a"])}')
    if model.get('roadms'):
        ctx.label('roadms:rows')
        if any(r.get('from') for r in model['roadms']):
            ctx.label('roadms:impairment-ids')
    if model.get('service'):
        ctx.label('service:rows')
        for r in model['service']:
            if r['path']:
                ctx.label('service:route-list:' + ('strict' if r['loose'] == 'no' else 'loose'))
                if r.get('unusable'):
                    ctx.label('service:route-list:unusable-hop-skipped')
                if any(eff.get(h) == 'ILA' for h in r['path'].split(' | ')):
                    ctx.label('service:route-list:ila-hop')
            if r['disjoint'] is not None:
                ctx.label('service:disjoint')
    if model.get('ghost'):
        ctx.label('ghost-rows')
    line = any(v in ('ILA', 'FUSED') for v in eff.values())
    ctx.nontrivial(asym and line and bool(eq or model.get('service')))


def _convert_services(r, equipment, network, model):
    from gnpy.tools.json_io import convert_service_sheet
    from gnpy.tools.service_sheet import read_service_sheet
    dx = convert_service_sheet(r.xlsx, equipment, network, network_filename=r.xlsx, bidir=bool(model.get('bidir')))
    # same designed network for the .xls branch: the two topologies were just found identical
    ds = read_service_sheet(r.xls, equipment, network, network_filename=r.xls, bidir=bool(model.get('bidir')))
    return dx, ds


def run_valid(model, ctx):
    from gnpy.tools.json_io import convert_service_sheet
    from gnpy.tools.service_sheet import read_service_sheet
    netgen.reset_sim_params()
    sheets = wbk.render(model)
    try:
        with Rendered(sheets) as r:
            ox = _convert(r.xlsx, False)
            os_ = _convert(r.xls, False)
            _labels_valid(ctx, model)
            for o, branch in ((ox, 'xlsx'), (os_, 'xls')):
                if o.kind != 'ok':
                    ctx.violation(f'valid-workbook-rejected:{branch}', o.value)
            if ctx.violations:
                return
            if ox.value != os_.value:
                ctx.violation('xls-xlsx-differ:topology', _first_diff(ox.value, os_.value))
            facts = check_topology(ctx, model, ox.value)
            if ctx.violations:
                return
            equipment, network = load_and_design(ox.value)
            if model.get('service'):
                import contextlib, io
                with contextlib.redirect_stdout(io.StringIO()):     # the conversion prints its warnings
                    dx, ds = _convert_services(r, equipment, network, model)
                if dx != ds:
                    ctx.violation('xls-xlsx-differ:services', _first_diff(dx, ds))
                check_services(ctx, model, dx, facts=facts)
                if not ctx.violations:
                    check_services(ctx, model, ds, tag=':xls', facts=facts)
    finally:
        netgen.reset_sim_params()


def _first_diff(a, b, path=''):
    if type(a) is not type(b) and not (isinstance(a, (int, float)) and isinstance(b, (int, float))):
        return f'{path}: {a!r} vs {b!r}'
    if isinstance(a, dict):
        for k in sorted(set(a) | set(b), key=str):
            if a.get(k) != b.get(k):
                return _first_diff(a.get(k), b.get(k), f'{path}/{k}')
    if isinstance(a, list):
        if len(a) != len(b):
            return f'{path}: lengths {len(a)} vs {len(b)}'
        for i, (x, y) in enumerate(zip(a, b)):
            if x != y:
                return _first_diff(x, y, f'{path}[{i}]')
    return f'{path}: {a!r} vs {b!r}'


def run_invalid(model, ctx):
    netgen.reset_sim_params()
    rule = model['expect'].split(':', 1)[1]
    ctx.label('rule:' + rule.split(':')[0])
    ctx.nontrivial(True)
    sheets = wbk.render(model)
    with Rendered(sheets) as r:
        for path, branch in ((r.xlsx, 'xlsx'), (r.xls, 'xls')):
            o = _convert(path, True)
            if o.kind == 'ok':
                ctx.violation(f'invalid-workbook-converted:{rule.split(":")[0]}',
                              f'{branch}: rule {rule} violated but a network with {len(o.value["elements"])} '
                              f'elements was produced')
            elif o.kind == 'other-error':
                ctx.violation(f'invalid-workbook-wrong-exception:{rule.split(":")[0]}:{o.value[0]}:{o.value[1]}',
                              f'{branch}: {o.value[2]}')


def structurally_sound(data):
    """weak, model-free well-formedness of a converted topology (used for the shape class only)"""
    uids = [e['uid'] for e in data['elements']]
    if len(set(uids)) != len(uids):
        return 'duplicate uids'
    types = {e['uid']: e['type'] for e in data['elements']}
    succ, pred = {}, {}
    for c in data['connections']:
        if c['from_node'] not in types or c['to_node'] not in types:
            return f'connection to a missing element: {c}'
        succ.setdefault(c['from_node'], []).append(c['to_node'])
        pred.setdefault(c['to_node'], []).append(c['from_node'])
    for uid, t in types.items():
        if t in ('Fiber', 'Edfa', 'Fused') and (len(succ.get(uid, [])) != 1 or len(pred.get(uid, [])) != 1):
            return f'{t} {uid!r} has predecessors {pred.get(uid, [])} and successors {succ.get(uid, [])}'
    return None


def run_shape(model, ctx):
    """Workbooks whose treatment is decided by the documentation (see the findings in the report).

    fused-degree-1 / fused-degree-3 / self-link: nothing in docs/excel.rst allows them (FUSED 'means that ingress and
    egress spans will be fused together', a link joins 'two nodes'); the converter's module documentation promises that
    incorrectly specified types are corrected.  Accepted outcomes: NetworkTopologyError, or a well-formed network
    that loads and designs.  Anything else (a crash with another exception, a mis-wired network) is a violation.
    retyped-roadm-eqpt-rows: a site left to automatic typing with degree != 2 *is* a ROADM (docs) and the Eqpt sheet
    must then hold one row per degree: the workbook passes the documented rules, conversion must be right.
    numeric-impairment-id / loose-other-value: valid workbooks, full oracle."""
    from gnpy.core.exceptions import NetworkTopologyError, ConfigurationError
    netgen.reset_sim_params()
    shape = model['expect'].split(':', 1)[1]
    ctx.label('shape:' + shape)
    ctx.nontrivial(True)
    if shape in ('retyped-roadm-eqpt-rows', 'numeric-impairment-id', 'loose-other-value',
                 'route-names-retyped-roadm-by-city'):
        sheets = wbk.render(model)
        try:
            with Rendered(sheets) as r:
                outs = [(_convert(r.xlsx, True), 'xlsx'), (_convert(r.xls, True), 'xls')]
                for o, branch in outs:
                    if o.kind == 'topology-error':
                        ctx.violation(f'shape:{shape}:valid-workbook-rejected', f'{branch}: {o.value}')
                    elif o.kind == 'other-error':
                        ctx.violation(f'shape:{shape}:{branch}:{o.value[0]}:{o.value[1]}', f'{branch}: {o.value[2]}')
                if ctx.violations:
                    return
                if outs[0][0].value != outs[1][0].value:
                    ctx.violation(f'shape:{shape}:xls-xlsx-differ', _first_diff(outs[0][0].value, outs[1][0].value))
                n0 = len(ctx.violations)
                check_topology(ctx, model, outs[0][0].value)
                ctx.violations[n0:] = [(f'shape:{shape}:{s}', d) for s, d in ctx.violations[n0:]]
                if ctx.violations:
                    return
                equipment, network = load_and_design(outs[0][0].value)
                if model.get('service'):
                    from gnpy.tools.service_sheet import read_service_sheet
                    dx = read_service_sheet(r.xlsx, equipment, network, network_filename=r.xlsx,
                                            bidir=bool(model.get('bidir')))
                    n0 = len(ctx.violations)
                    check_services(ctx, model, dx)
                    ctx.violations[n0:] = [(f'shape:{shape}:{s}', d) for s, d in ctx.violations[n0:]]
        finally:
            netgen.reset_sim_params()
        return
    sheets = wbk.render(model)
    try:
        with Rendered(sheets) as r:
            for path, branch in ((r.xlsx, 'xlsx'), (r.xls, 'xls')):
                o = _convert(path, True)
                if o.kind == 'topology-error':
                    ctx.label(f'shape:{shape}:rejected')
                    continue
                if o.kind == 'other-error':
                    ctx.violation(f'shape:{shape}:crash:{o.value[0]}:{o.value[1]}',
                                  f'{branch}: site {model.get("focus")!r}: {o.value[0]}: {o.value[2]}')
                    continue
                why = structurally_sound(o.value)
                if why:
                    ctx.violation(f'shape:{shape}:converted-to-miswired-network',
                                  f'{branch}: site {model.get("focus")!r}: {why}')
                    continue
                try:
                    load_and_design(o.value)
                    ctx.label(f'shape:{shape}:converted-and-designed')
                except (NetworkTopologyError, ConfigurationError) as e:
                    ctx.violation(f'shape:{shape}:converted-but-design-fails:{type(e).__name__}',
                                  f'{branch}: site {model.get("focus")!r}: {e}')
    finally:
        netgen.reset_sim_params()


# ---------------------------------------------------------------------------------------------- shipped workbooks

FIXTURES = {
    # path: (equipment library for load+design or None, expectation)
    '/repo/tests/data/testTopology.xls': (TESTS_EQPT, 'valid'),
    '/repo/tests/data/testTopologyconvert.xls': (None, 'valid'),
    '/repo/tests/data/perdegreemeshTopologyExampleV2.xls': (None, 'valid'),
    '/repo/gnpy/example-data/meshTopologyExampleV2.xls': (EXAMPLE_EQPT, 'valid'),
    '/repo/gnpy/example-data/CORONET_Global_Topology.xls': (None, 'valid'),
    # not used: juniperTopologyExampleV2J.xls (Eqpt rows for FUSED sites, outside the documented use of the sheet),
    # tests/data/CORONET_Global_Topology.xlsx (12 s per conversion; same content as the .xls)
    '/repo/tests/data/ila_constraint.xlsx': (TESTS_EQPT, 'valid'),
    '/repo/tests/data/wrong_node_type.xlsx': (None, 'valid'),
    '/repo/tests/data/wrong_topo_node.xlsx': (None, 'invalid'),
    '/repo/tests/data/wrong_topo_link.xlsx': (None, 'invalid'),
    '/repo/tests/data/wrong_topo_link_header.xlsx': (None, 'invalid'),
    '/repo/tests/data/wrong_topo_eqpt.xlsx': (None, 'invalid'),
    '/repo/tests/data/wrong_topo_duplicate_node.xlsx': (None, 'invalid'),
    '/repo/tests/data/wrong_topo_duplicate_eqpt.xlsx': (None, 'invalid'),
    '/repo/tests/data/wrong_topo_bad_eqpt.xlsx': (None, 'invalid'),
    '/repo/tests/data/wrong_duplicate_link_reverse.xlsx': (None, 'invalid'),
    '/repo/tests/data/wrong_duplicate_eqpt_ila_reverse.xlsx': (None, 'invalid'),
}


def run_fixture(case, ctx):
    """Shipped workbooks read unchanged: the real xlrd/openpyxl path against (a) the model oracle, with the model
    recovered from the cells by the harness' own reader, and (b) the stub fed with the same cells (stub fidelity)."""
    netgen.reset_sim_params()
    path = Path(case['fixture'])
    eqpt, expect = FIXTURES[case['fixture']]
    ctx.label(f'fixture:{path.suffix}:{expect}')
    ctx.nontrivial(True)
    real = _convert(path, False)
    if expect == 'invalid':
        if real.kind != 'topology-error':
            ctx.violation('fixture-invalid-workbook-converted', f'{path.name}')
        return
    if real.kind != 'ok':
        ctx.violation('fixture-valid-workbook-rejected', f'{path.name}: {real.value}')
        return
    matrix = wbk.read_xls_matrix(path) if path.suffix == '.xls' else wbk.read_xlsx_matrix(path)
    fake = Path('/dev/shm') / f'c20-fixture-{path.stem}.xls'
    with wbk.stubbed_xls(matrix, fake):
        stub = _convert(fake, False)
    if stub.kind != 'ok' or stub.value != real.value:
        ctx.violation('fixture-stub-differs-from-real-reader', f'{path.name}: '
                      + (_first_diff(real.value, stub.value) if stub.kind == 'ok' else str(stub.value)))
    model = wbk.model_from_matrix(matrix)
    model['service'] = None
    check_topology(ctx, model, real.value)
    if eqpt and not ctx.violations:
        try:
            load_and_design(real.value, eqpt)
        finally:
            netgen.reset_sim_params()


SHAPE_NAMES = list(wbk.SHAPES) + ['loose-other-value', 'route-names-retyped-roadm-by-city']


@st.composite
def shape_case(draw, shape):
    if shape not in ('loose-other-value', 'route-names-retyped-roadm-by-city'):
        return draw(wbk.shape_model(shapes=(shape,)))
    m = draw(wbk.valid_model(services=False))
    eff = wbk.effective_types(m)
    deg = wbk.degrees(m)
    roadm_sites = [s['city'] for s in m['sites'] if eff[s['city']] == 'ROADM']
    declared = [s['city'] for s in m['sites'] if s['type'] == 'ROADM']
    if shape == 'loose-other-value':
        rows = draw(wbk.service_rows(roadm_sites, loose_values=('y', 'true', 'loose', 'maybe'), by_city=declared))
        if not any(r['path'] for r in rows):
            rows[0]['path'] = f'roadm {roadm_sites[0]}'
    else:
        # a ROADM site by the documented automatic typing (ILA / blank / other string, degree != 2) named by its
        # city name in a route list, as sites declared ROADM can be
        site = next((s for s in m['sites'] if s['type'] != 'ROADM' and eff[s['city']] == 'ROADM'), None)
        if site is None:
            site = next((s for s in m['sites'] if deg[s['city']] != 2), None)
            if site is not None:
                site['type'] = draw(st.sampled_from(['ILA', None, 'OLA']))
                keep = True
                rows_e = []
                for e in m['eqpt'] or []:
                    if e['a'] == site['city']:
                        if not keep:
                            continue
                        keep = False
                    rows_e.append(e)
                if m['eqpt'] is not None:
                    m['eqpt'] = rows_e
                if m['roadms'] is not None:
                    m['roadms'] = [r for r in m['roadms'] if r['a'] != site['city']]
        rows = draw(wbk.service_rows(roadm_sites, loose_values=(None, 'yes', 'no'), by_city=declared))
        if site is not None:
            others = [c for c in roadm_sites if c != site['city']]
            rows[0].update({'src': others[0], 'dst': (others[1:] or [site['city']])[0], 'path': site['city']})
            m['focus'] = site['city']
    m['service'] = rows
    m['expect'] = 'shape:' + shape
    return m


CHECKS = [
    Check('valid', wbk.valid_model(), run_valid, quick=380, thorough=12000,
          doc='valid workbooks: .xlsx and stubbed .xls conversion vs model oracle, load+design, service sheet'),
    Check('invalid', wbk.invalid_model(), run_invalid, quick=300, thorough=8000,
          doc='valid model + one documented rule violation => NetworkTopologyError on both branches'),
    Check('shapes', [shape_case(x) for x in SHAPE_NAMES], run_shape, quick=84, thorough=1540,     # one stratum per shape
          doc='FUSED degree != 2, self-link, re-typed ROADM with Eqpt rows, numeric impairment id, loose? values'),
    Check('fixtures', st.sampled_from(sorted(FIXTURES)).map(lambda p: {'fixture': p}), run_fixture,
          quick=len(FIXTURES), thorough=len(FIXTURES), doc='shipped .xls/.xlsx workbooks read unchanged'),
]

FLOORS = {
    'valid:link:two-sided': (0.3, 'valid'),
    'valid:link:one-sided': (0.2, 'valid'),
    'valid:site:FUSED->FUSED': (0.15, 'valid'),
    'valid:site:ILA->ILA': (0.15, 'valid'),
    'valid:site:retyped-to-roadm': (0.15, 'valid'),
    'valid:service:rows': (0.3, 'valid'),
    'valid:eqpt-row:ILA:two-sided': (0.05, 'valid'),
    'valid:service:route-list:ila-hop': (0.02, 'valid'),
    'valid:roadms:rows': (0.05, 'valid'),
}
FLOORS.update({f'invalid:rule:{r}': (0.01, 'invalid') for r in wbk.INVALID_RULES})
FLOORS.update({f'shapes:shape:{r}': (0.03, 'shapes') for r in list(wbk.SHAPES) + ['loose-other-value',
                                                                                 'route-names-retyped-roadm-by-city']})
