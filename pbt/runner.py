"""Common driver for all property checks.

Contract (see DESIGN.md §2):
  * a property module (pbt/props/cNN.py) exposes PROPERTY, RULE, ASSUMPTIONS and CHECKS, a list of
    `Check` objects; each Check has a Hypothesis strategy producing a JSON-serialisable *case* and a
    pure function `run(case, ctx)` that executes the real gnpy code and reports through `ctx`.
  * `ctx.violation(signature, detail)` records a violation (several per case are allowed so that one
    recorded finding does not hide the others); `ctx.label(x)` feeds the class histogram;
    `ctx.nontrivial()` marks the case as non-trivial under the module's RULE.
  * the runner owns seeding, sharding, the replay tier, known-finding matching, shrinking,
    replay-file writing, evidence writing and exit codes (0 held / 1 VIOLATION / 2 harness error).
"""
from __future__ import annotations

import hashlib
import importlib
import json
import multiprocessing as mp
import os
import re
import sys
import time
import traceback
from dataclasses import dataclass, field
from pathlib import Path
from typing import Any, Callable, Dict, List, Optional

ROOT = Path(__file__).resolve().parent.parent
REPLAYS = ROOT / 'replays'
EVIDENCE = ROOT / 'evidence'
KNOWN_FILE = ROOT / 'known_findings.json'


def _gnpy_root() -> str:
    src = os.environ.get('GNPY_SRC')
    if src:
        return str(Path(src).resolve())
    return '/repo'


def setup_gnpy_path():
    """Make `import gnpy` resolve to GNPY_SRC (mutation self-test) or /repo's working tree."""
    root = _gnpy_root()
    if sys.path[0] != root:
        sys.path.insert(0, root)
    import logging
    logging.disable(logging.CRITICAL)
    import gnpy  # noqa
    got = str(Path(gnpy.__file__).resolve().parent.parent)
    if got != root:
        raise HarnessError(f'gnpy imported from {got}, expected {root}')


class HarnessError(Exception):
    """Something is wrong with the machinery itself (exit 2, never a VIOLATION)."""


class Violation(Exception):
    def __init__(self, check: str, signature: str, detail: str = ''):
        super().__init__(f'{check}: {signature}: {detail}')
        self.check, self.signature, self.detail = check, signature, detail


@dataclass
class Check:
    name: str
    strategy: Any                       # hypothesis strategy -> case (JSON-serialisable)
    run: Callable[[Any, 'Ctx'], None]   # executes gnpy, reports via ctx
    quick: int                          # number of examples, quick tier (all workers together)
    thorough: int                       # number of examples, thorough tier (all workers together)
    doc: str = ''


class Ctx:
    """Per-case reporting object."""

    def __init__(self, check: str):
        self.check = check
        self.violations: List[tuple] = []
        self.labels: List[str] = []
        self.is_nontrivial = False
        self.note: Dict[str, Any] = {}

    def violation(self, signature: str, detail: str = ''):
        self.violations.append((signature, str(detail)[:2000]))

    def label(self, *labels: str):
        self.labels.extend(labels)

    def nontrivial(self, flag: bool = True):
        if flag:
            self.is_nontrivial = True


# ------------------------------------------------------------------ known findings

def load_known(prop: str):
    if not KNOWN_FILE.exists():
        return []
    data = json.loads(KNOWN_FILE.read_text())
    out = []
    for e in data.get('findings', []):
        if e.get('property') == prop and e.get('status') == 'open':
            out.append(e)
    return out


def match_known(known, signature: str) -> Optional[dict]:
    for e in known:
        if re.fullmatch(e['signature'], signature):
            return e
    return None


# ------------------------------------------------------------------ exceptions from the code under test

def classify_exception(exc: BaseException):
    """Return (where, signature). where = 'gnpy' when the innermost frame that belongs to the code under
    test lies *below* the last harness frame (i.e. the harness called gnpy and gnpy raised); 'harness'
    when the exception was raised by the harness/oracle itself."""
    tb = traceback.extract_tb(exc.__traceback__)
    root = _gnpy_root() + '/gnpy/'
    last_gnpy = None
    for i, fr in enumerate(tb):
        if fr.filename.startswith(root):
            last_gnpy = fr
    innermost = tb[-1] if tb else None
    if last_gnpy is None:
        return 'harness', None
    # harness frames after the last gnpy frame (callbacks) => harness error
    after = tb[tb.index(last_gnpy) + 1:]
    if any('/verif/pbt/' in fr.filename or str(ROOT / 'pbt') in fr.filename for fr in after):
        return 'harness', None
    sig = f'exception:{type(exc).__name__}:{Path(last_gnpy.filename).name}:{last_gnpy.name}'
    return 'gnpy', sig


def case_digest(case) -> str:
    return hashlib.sha1(json.dumps(case, sort_keys=True, default=str).encode()).hexdigest()


# ------------------------------------------------------------------ executing one case

class Stats:
    def __init__(self):
        self.evaluations = 0
        self.nontrivial = set()
        self.labels: Dict[str, int] = {}
        self.known: Dict[str, int] = {}           # finding id -> count
        self.known_what: Dict[str, str] = {}
        self.samples: List[tuple] = []           # (size, check, case)
        self.per_check: Dict[str, int] = {}
        self.harness_errors: List[str] = []

    def merge(self, other: dict):
        self.evaluations += other['evaluations']
        self.nontrivial |= set(other['nontrivial'])
        for k, v in other['labels'].items():
            self.labels[k] = self.labels.get(k, 0) + v
        for k, v in other['known'].items():
            self.known[k] = self.known.get(k, 0) + v
        self.known_what.update(other['known_what'])
        self.samples.extend([tuple(s) for s in other['samples']])
        for k, v in other['per_check'].items():
            self.per_check[k] = self.per_check.get(k, 0) + v
        self.harness_errors.extend(other['harness_errors'])

    def dump(self) -> dict:
        return {'evaluations': self.evaluations, 'nontrivial': sorted(self.nontrivial), 'labels': self.labels,
                'known': self.known, 'known_what': self.known_what, 'samples': self.samples[:12],
                'per_check': self.per_check, 'harness_errors': self.harness_errors}


def execute(check: Check, case, stats: Stats, known, masked=()) -> List[tuple]:
    """Run one case. Returns the list of *unknown* violations [(signature, detail)]."""
    ctx = Ctx(check.name)
    try:
        import contextlib
        import io
        with contextlib.redirect_stdout(io.StringIO()):     # what the code under test prints is not part of the result
            check.run(case, ctx)
    except Violation as v:
        ctx.violation(v.signature, v.detail)
    except HarnessError:
        raise
    except Exception as exc:  # noqa
        where, sig = classify_exception(exc)
        if where == 'harness':
            raise HarnessError(f'{check.name}: {type(exc).__name__}: {exc}\n{traceback.format_exc()}') from exc
        ctx.violation(sig, f'{type(exc).__name__}: {exc}')
    stats.evaluations += 1
    stats.per_check[check.name] = stats.per_check.get(check.name, 0) + 1
    if ctx.is_nontrivial:
        stats.nontrivial.add(case_digest(case))
    for lab in ctx.labels:
        key = f'{check.name}:{lab}'
        stats.labels[key] = stats.labels.get(key, 0) + 1
    if len(stats.samples) < 400:
        size = len(json.dumps(case, default=str))
        stats.samples.append((size, check.name, case))
    unknown = []
    for sig, detail in ctx.violations:
        full = f'{check.name}:{sig}'
        k = match_known(known, full)
        if k is not None:
            stats.known[k['id']] = stats.known.get(k['id'], 0) + 1
            stats.known_what[k['id']] = k['what']
            continue
        if full in masked:
            continue
        unknown.append((full, detail))
    return unknown


# ------------------------------------------------------------------ search

def search(check: Check, n_examples: int, seed: int, stats: Stats, known, shrink=True, max_restarts=1):
    """Hypothesis search. Returns list of found failures: [{signature, detail, case}].
    A check whose `strategy` is a list of strategies is stratified: every stratum gets an equal share of the examples in
    its own Hypothesis run (Hypothesis does not draw the branches of one_of / sampled_from uniformly, so a class that must
    be covered is better made a stratum than left to chance)."""
    if isinstance(check.strategy, (list, tuple)):
        out = []
        k = len(check.strategy)
        for i, strat in enumerate(check.strategy):
            sub = Check(check.name, strat, check.run, check.quick, check.thorough, check.doc)
            out.extend(search(sub, -(-n_examples // k), seed + 31 * i, stats, known, shrink, max_restarts))
        return out
    import hypothesis
    from hypothesis import given, settings, HealthCheck, Phase

    failures = []
    masked = set()
    for attempt in range(max_restarts + 1):
        last = {}

        phases = [Phase.explicit, Phase.generate, Phase.target]
        if shrink:
            phases.append(Phase.shrink)

        @hypothesis.seed(seed + 7919 * attempt)
        @settings(max_examples=max(1, n_examples), database=None, deadline=None, derandomize=False,
                  report_multiple_bugs=False, phases=phases, print_blob=False,
                  suppress_health_check=list(HealthCheck))
        @given(check.strategy)
        def test(case):
            unknown = execute(check, case, stats, known, masked)
            if unknown:
                # keep the shrinker on one root cause: once a signature has been seen, only cases
                # reproducing that signature count as failing for the rest of this attempt
                target = last.setdefault('target', unknown[0][0])
                same = [u for u in unknown if u[0] == target]
                if not same:
                    return
                last['case'] = case
                last['unknown'] = same
                raise Violation(check.name, same[0][0], same[0][1])

        try:
            test()
        except Violation:
            sig, detail = last['unknown'][0]
            failures.append({'signature': sig, 'detail': detail, 'case': last['case'], 'check': check.name})
            masked.add(sig)
            continue
        except HarnessError:
            raise
        except hypothesis.errors.HypothesisException as e:
            if 'case' in last:
                # e.g. Flaky: a violation was observed but did not reproduce when Hypothesis replayed the case, which
                # happens when the code under test keeps state between cases (itself a defect worth reporting): keep
                # the last failing case unshrunk
                sig, detail = last['unknown'][0]
                failures.append({'signature': sig, 'detail': f'[{type(e).__name__} during shrinking] {detail}',
                                 'case': last['case'], 'check': check.name})
                masked.add(sig)
                continue
            raise HarnessError(f'{check.name}: hypothesis error {type(e).__name__}: {e}') from e
        break
    return failures


def _worker(args):
    modname, check_name, n, seed, shrink, restarts = args
    try:
        setup_gnpy_path()
        mod = importlib.import_module(modname)
        check = next(c for c in mod.CHECKS if c.name == check_name)
        stats = Stats()
        known = load_known(mod.PROPERTY)
        fails = search(check, n, seed, stats, known, shrink=shrink, max_restarts=restarts)
        return {'stats': stats.dump(), 'failures': fails, 'error': None}
    except HarnessError as e:
        return {'stats': Stats().dump(), 'failures': [], 'error': str(e)}
    except Exception as e:  # noqa
        return {'stats': Stats().dump(), 'failures': [], 'error': f'{type(e).__name__}: {e}\n{traceback.format_exc()}'}


# ------------------------------------------------------------------ main

def write_replay(prop: str, failure: dict) -> Path:
    d = Path(os.environ.get('VERIF_FOUND_DIR') or REPLAYS) / prop
    d.mkdir(parents=True, exist_ok=True)
    body = {'property': prop, 'check': failure['check'], 'signature': failure['signature'],
            'detail': failure['detail'], 'case': failure['case']}
    name = hashlib.sha1(json.dumps([failure['check'], failure['case']], sort_keys=True, default=str)
                        .encode()).hexdigest()[:16]
    p = d / f'found-{name}.json'
    # key order is part of the case (the code under test may be sensitive to it): do not sort
    p.write_text(json.dumps(body, indent=1, default=str))
    return p


def run_replay_file(mod, path: Path, stats: Stats, known):
    body = json.loads(Path(path).read_text())
    check = next((c for c in mod.CHECKS if c.name == body['check']), None)
    if check is None:
        raise HarnessError(f'replay {path}: unknown check {body["check"]}')
    return execute(check, body['case'], stats, known)


def write_evidence(mod, tier, seed, stats: Stats, wall, n_viol, extra=None):
    # evidence describes runs against /repo only: a run against a scratch copy (GNPY_SRC, mutation / seeded self-tests)
    # writes next to its replay files instead of overwriting the committed evidence
    evdir = EVIDENCE
    if os.environ.get('GNPY_SRC'):
        evdir = Path(os.environ.get('VERIF_FOUND_DIR') or '/tmp/verif-scratch-evidence')
    evdir.mkdir(parents=True, exist_ok=True)
    samples = sorted(stats.samples, key=lambda s: s[0])
    chosen = []
    if samples:
        # smallest, median, largest per check (bounded size)
        by_check: Dict[str, list] = {}
        for s in samples:
            by_check.setdefault(s[1], []).append(s)
        for name, lst in sorted(by_check.items()):
            for idx in sorted({0, len(lst) // 2, len(lst) - 1}):
                size, _, case = lst[idx]
                txt = json.dumps(case, default=str)
                chosen.append({'check': name, 'case': case if size <= 6000 else txt[:6000] + '...<truncated>'})
    cov = {
        'evaluations': stats.evaluations,
        'distinct_nontrivial': len(stats.nontrivial),
        'rule': mod.RULE,
        'samples': chosen,
        'per_check_evaluations': stats.per_check,
        'class_histogram': dict(sorted(stats.labels.items())),
        'known_findings_hit': stats.known,
    }
    if extra:
        cov.update(extra)
    ev = {
        'property_id': mod.PROPERTY, 'tier': tier, 'seed': seed, 'level': 'exploration',
        'coverage': cov, 'assumptions': list(getattr(mod, 'ASSUMPTIONS', [])), 'wall_s': round(wall, 2),
        'violations': n_viol,
    }
    (evdir / f'{mod.PROPERTY}.json').write_text(json.dumps(ev, indent=1, default=str))


def main(argv=None):
    import argparse
    ap = argparse.ArgumentParser()
    ap.add_argument('prop')
    ap.add_argument('--tier', default=os.environ.get('VERIF_TIER', 'quick'), choices=['quick', 'thorough'])
    ap.add_argument('--replay', default=None)
    ap.add_argument('--only', default=None, help='run only this sub-check')
    ap.add_argument('--scale', type=float, default=1.0, help='multiply example budgets')
    ap.add_argument('--workers', type=int, default=None)
    args = ap.parse_args(argv)
    prop = args.prop.upper()
    try:
        seed = int(os.environ.get('VERIF_SEED', '1') or 1)
    except ValueError:
        seed = 1
    t0 = time.time()
    try:
        setup_gnpy_path()
        mod = importlib.import_module(f'pbt.props.{prop.lower()}')
        known = load_known(prop)
        stats = Stats()

        if args.replay:
            unknown = run_replay_file(mod, Path(args.replay), stats, known)
            for kid, n in stats.known.items():
                print(f'KNOWN-FINDING: property={prop} {kid}: {stats.known_what[kid]}')
            if unknown:
                for sig, detail in unknown:
                    print(f'  {sig}: {detail}')
                print(f'VIOLATION property={prop} replay={args.replay}')
                return 1
            print(f'replay {args.replay}: property held')
            return 0

        failures = []
        # 1. replay tier
        rdir = REPLAYS / prop
        n_replays = 0
        if rdir.is_dir():
            for p in sorted(rdir.glob('*.json')):
                n_replays += 1
                unknown = run_replay_file(mod, p, stats, known)
                if unknown:
                    failures.append({'signature': unknown[0][0], 'detail': unknown[0][1], 'replay': p})
        # 2. generated search
        checks = [c for c in mod.CHECKS if args.only in (None, c.name)]
        workers = args.workers or (16 if args.tier == 'thorough' else 4)
        jobs = []
        for c in checks:
            total = int((c.thorough if args.tier == 'thorough' else c.quick) * args.scale)
            if total <= 0:
                continue
            w = max(1, min(workers, total // 5 or 1))
            per = -(-total // w)
            for shard in range(w):
                jobs.append((mod.__name__, c.name, per, seed * 100003 + shard * 101 + (hash_name(c.name) % 97),
                             args.tier == 'thorough' or True, 3 if args.tier == 'thorough' else 1))
        if jobs:
            if workers == 1:
                results = [_worker(j) for j in jobs]
            else:
                # ProcessPoolExecutor notices a worker killed by a crash of a C extension (a plain Pool would hang)
                from concurrent.futures import ProcessPoolExecutor
                from concurrent.futures.process import BrokenProcessPool
                results = []
                with ProcessPoolExecutor(min(workers, len(jobs)), mp_context=mp.get_context('fork')) as pool:
                    futures = [pool.submit(_worker, j) for j in jobs]
                    for j, f in zip(jobs, futures):
                        try:
                            results.append(f.result())
                        except BrokenProcessPool:
                            results.append({'stats': Stats().dump(), 'failures': [],
                                            'error': f'worker process for {j[1]} died (interpreter crash in the code under '
                                                     f'test or out of memory); seed {j[3]}'})
        else:
            results = []
        errors = []
        for r in results:
            stats.merge(r['stats'])
            if r['error']:
                errors.append(r['error'])
            failures.extend(r['failures'])
        wall = time.time() - t0
        if errors:
            print('HARNESS ERROR\n' + '\n'.join(errors[:3]), file=sys.stderr)
            write_evidence(mod, args.tier, seed, stats, wall, 0, {'harness_errors': errors[:3]})
            return 2
        # dedupe failures by signature
        seen = {}
        for f in failures:
            seen.setdefault(f['signature'], f)
        for kid, n in sorted(stats.known.items()):
            print(f'KNOWN-FINDING: property={prop} {kid}: {stats.known_what[kid]} (hit {n}x)')
        rc = 0
        for sig, f in seen.items():
            path = f.get('replay') or write_replay(prop, f)
            try:
                shown = Path(path).resolve().relative_to(ROOT)
            except ValueError:
                shown = path
            print(f'  signature={sig}\n  detail={f["detail"][:600]}')
            print(f'VIOLATION property={prop} replay={shown}')
            rc = 1
        extra = {'replayed_files': n_replays}
        floors = getattr(mod, 'FLOORS', {})
        degenerate = []
        for lab, (frac, base) in floors.items():
            b = stats.per_check.get(base, 0) if isinstance(base, str) else stats.evaluations
            if b >= 50 and stats.labels.get(lab, 0) < frac * b:
                degenerate.append(f'{lab}: {stats.labels.get(lab, 0)}/{b} < {frac}')
        write_evidence(mod, args.tier, seed, stats, wall, len(seen), extra)
        print(f'{prop} tier={args.tier} seed={seed} evaluations={stats.evaluations} '
              f'distinct_nontrivial={len(stats.nontrivial)} violations={len(seen)} wall={wall:.1f}s')
        if rc == 0 and degenerate:
            print('GENERATOR DEGENERATE: ' + '; '.join(degenerate), file=sys.stderr)
            return 2
        if rc == 0 and len(stats.nontrivial) < 2:
            print('GENERATOR DEGENERATE: fewer than 2 non-trivial cases', file=sys.stderr)
            return 2
        return rc
    except HarnessError as e:
        print(f'HARNESS ERROR: {e}', file=sys.stderr)
        return 2
    except Exception as e:  # noqa
        print(f'HARNESS ERROR: {type(e).__name__}: {e}\n{traceback.format_exc()}', file=sys.stderr)
        return 2


def hash_name(s: str) -> int:
    return int(hashlib.sha1(s.encode()).hexdigest()[:8], 16)


if __name__ == '__main__':
    sys.exit(main())
