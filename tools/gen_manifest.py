#!/venv/bin/python
"""Regenerate MANIFEST.json from pbt/manifest_data.py (keeps the file valid at all times)."""
import json, sys
sys.path.insert(0, '.')
from pbt.manifest_data import CHECKS, NOT_APPLICABLE, FIX_COMMITS
checks = []
for pid, d in sorted(CHECKS.items()):
    checks.append({
        'property_id': pid,
        'quick_cmd': f'./check {pid} --tier quick',
        'thorough_cmd': f'./check {pid} --tier thorough',
        'evidence_file': f'evidence/{pid}.json',
        'replay_cmd_template': f'./check {pid} --replay {{path}}',
        'engine': 'hypothesis',
        'level_claimed': {'category': 'exploration', 'text': d['text'], 'design_ref': f'DESIGN.md §3 {pid}'},
        'level_note': d['note'],
        'technique': d['technique'],
    })
m = {
    'version': 1,
    'setup_cmd': "/venv/bin/python -c 'import hypothesis' 2>/dev/null || /venv/bin/pip install --no-index --find-links /opt/veriftools/wheels hypothesis",
    'hooks': {'guard': 'GNPY_VERIF', 'enable': 'no source hooks: observation is done in-process by wrapping element __call__ methods (pbt/props/_paths.py); GNPY_SRC=<dir> points the harness at a scratch copy for mutation self-tests',
              'baseline_off_cmd': 'cd /repo && /venv/bin/python -m pytest -ra -q -p no:cacheprovider --timeout=900 --continue-on-collection-errors',
              'source_commits': FIX_COMMITS, 'add_only': True},
    'engines': [{'name': 'hypothesis', 'path': 'pbt/runner.py', 'serves_properties': sorted(CHECKS),
                 'kind_free_text': 'Hypothesis 6.168 property-based search (seeded, sharded over processes) with explicit oracles, shrinking to JSON replay files'}],
    'checks': checks,
    'notes': 'All checks: ./check CNN --tier quick|thorough [--replay file]; VERIF_SEED honoured; exit 0 held / 1 VIOLATION / 2 harness error. No guarded hook commits exist (hooks.source_commits is empty); the unguarded "fix:" commits made in /repo are listed with what failed in known_findings.json (status fixed) and DESIGN.md section 6; open findings print KNOWN-FINDING lines. Seeded changes from independent agents: seeded/ (REPORT.md), run with tools/run_seeded.py.',
    'not_applicable': [{'property_id': k, 'reason': v} for k, v in sorted(NOT_APPLICABLE.items())],
}
json.dump(m, open('MANIFEST.json', 'w'), indent=1)
print('checks:', [c['property_id'] for c in checks], 'not_applicable:', sorted(NOT_APPLICABLE))
