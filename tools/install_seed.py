#!/venv/bin/python
"""Verify a candidate seeded change and install it under /verif/seeded/<id>/.

usage: tools/install_seed.py <id> <property> <patch.diff> <demo.py> "<what it needs to manifest>"

Verification done here (in a scratch copy of /repo under /tmp, removed afterwards; /repo itself is never touched):
  1. the patch applies to the current /repo tree;
  2. the demonstration program exits non-zero on the patched copy and zero on the unchanged tree;
  3. the repository's pinned test command on the patched copy passes every test of BASELINE.json's stable_pass list
     (except tests.test_opensource_compliancy::test_commit_authors_in_author_rst, which depends on the git history of the
     sandbox and not on the code).
The outcome is recorded in meta.json; the change is kept only if all three hold.
"""
import json
import os
import shutil
import subprocess
import sys
import tempfile
import xml.etree.ElementTree as ET
from pathlib import Path

ROOT = Path(__file__).resolve().parent.parent
ENV_ONLY = {'tests.test_opensource_compliancy::test_commit_authors_in_author_rst'}


def main():
    sid, prop, patch, demo, needs = sys.argv[1:6]
    tmp = Path(tempfile.mkdtemp(prefix=f'seedverify-{sid}-', dir='/tmp'))
    meta = {'id': sid, 'property': prop, 'needs': needs, 'origin': 'independent sub-agent given only the property text',
            'ran': {}}
    try:
        subprocess.run(['git', '-C', '/repo', 'worktree', 'add', '-q', '--detach', str(tmp / 'wt'), 'HEAD'], check=True)
        wt = tmp / 'wt'
        r = subprocess.run(['git', '-C', str(wt), 'apply', str(Path(patch).resolve())], capture_output=True, text=True)
        meta['ran']['git apply'] = r.returncode
        if r.returncode != 0:
            print('PATCH DOES NOT APPLY', r.stderr[-300:])
            return 1
        env = dict(os.environ, PYTHONPATH=str(wt))
        r1 = subprocess.run(['/venv/bin/python', str(Path(demo).resolve())], cwd=wt, env=env, capture_output=True, text=True)
        r0 = subprocess.run(['/venv/bin/python', str(Path(demo).resolve())], cwd='/repo', env=dict(os.environ, PYTHONPATH='/repo'),
                            capture_output=True, text=True)
        meta['ran']['demo on patched tree'] = f'exit {r1.returncode}: {r1.stdout.strip().splitlines()[-1][:200] if r1.stdout.strip() else ""}'
        meta['ran']['demo on unchanged tree'] = f'exit {r0.returncode}: {r0.stdout.strip().splitlines()[-1][:200] if r0.stdout.strip() else ""}'
        if r1.returncode == 0 or r0.returncode != 0:
            print('DEMO INCONSISTENT', meta['ran'])
            return 1
        xml = tmp / 'j.xml'
        cmd = ['/venv/bin/python', '-m', 'pytest', '-q', '-p', 'no:cacheprovider', '--timeout=900',
               '--continue-on-collection-errors', f'--junitxml={xml}']
        subprocess.run(cmd, cwd=wt, env=env, capture_output=True, text=True)
        passed = set()
        for tc in ET.parse(xml).getroot().iter('testcase'):
            if not any(ch.tag in ('failure', 'error', 'skipped') for ch in tc):
                passed.add(f"{tc.get('classname')}::{tc.get('name')}")
        base = json.load(open('/root/.vp/BASELINE.json'))
        missing = [t for t in base['stable_pass'] if t not in passed and t not in ENV_ONLY]
        meta['ran']['pinned test-suite on patched tree'] = f'{len(passed)} passed; stable_pass tests not passing: {missing[:5]}'
        if missing:
            print('EXISTING TESTS DETECT IT', missing[:5])
            return 1
        d = ROOT / 'seeded' / sid
        d.mkdir(parents=True, exist_ok=True)
        shutil.copy(patch, d / 'patch.diff')
        shutil.copy(demo, d / 'demo.py')
        (d / 'meta.json').write_text(json.dumps(meta, indent=1))
        print('INSTALLED', sid, meta['ran'])
        return 0
    finally:
        subprocess.run(['git', '-C', '/repo', 'worktree', 'remove', '--force', str(tmp / 'wt')], capture_output=True)
        shutil.rmtree(tmp, ignore_errors=True)


if __name__ == '__main__':
    sys.exit(main())
