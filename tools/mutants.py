"""Registry of hand-written mutants for tools/mutation_selftest.py.
MUTANTS[property][name] = {'edits': [(file relative to repo root, old text, new text)], 'only': optional sub-check}
Every mutant compiles; they model realistic slips at the mechanisms the property is anchored in.
"""

MUTANTS = {
    'C01': {
        'add_ase_forgets_nli_rescale': {'edits': [('gnpy/core/info.py', '        self._nli_ratio *= self.pch / pch\n', '        pass\n')]},
        'add_nli_forgets_ase_rescale': {'edits': [('gnpy/core/info.py', '        self._ase_ratio *= (1 - nli_ratio)\n', '        pass\n')]},
        'mux_loses_ratio': {'edits': [('gnpy/core/info.py', 'nli_ratio=append(self._nli_ratio, other._nli_ratio)',
                                       'nli_ratio=append(self._nli_ratio, other._nli_ratio * 0)')]},
        'gsnr_ignores_nli_in_db': {'edits': [('gnpy/core/elements.py', '            self.raw_snr = spectral_info.gsnr_db\n',
                                              '            self.raw_snr = spectral_info.snr_lin_db\n')]},
    },
    'C02': {
        'roadm_attenuates_signal_share_only': {'edits': [('gnpy/core/elements.py',
                                                          '        spectral_info.apply_attenuation_db(delta_power)\n',
                                                          '        spectral_info.apply_attenuation_db(delta_power)\n'
                                                          '        spectral_info._ase_ratio = spectral_info._ase_ratio * 0.999\n')]},
        'edfa_rescales_nli_twice': {'edits': [('gnpy/core/info.py', '        self._nli_ratio *= self.pch / pch\n',
                                               '        self._nli_ratio *= (self.pch / pch) ** 2\n')]},
        'fiber_nli_sign': {'edits': [('gnpy/core/elements.py', '        nli = NliSolver.compute_nli(spectral_info, stimulated_raman_scattering, self)\n        spectral_info.add_nli(nli)\n\n        # chromatic dispersion and pmd variations\n        spectral_info.chromatic_dispersion += self.chromatic_dispersion(spectral_info.frequency)\n        spectral_info.pmd = sqrt(spectral_info.pmd ** 2 + self.pmd ** 2)\n\n        # latency\n        spectral_info.latency += self.params.latency\n\n        # apply the attenuation due to the fiber losses\n        attenuation_fiber = stimulated_raman_scattering.loss_profile[:, -1]',
                                      '        nli = NliSolver.compute_nli(spectral_info, stimulated_raman_scattering, self)\n        spectral_info.add_nli(-nli)\n\n        # chromatic dispersion and pmd variations\n        spectral_info.chromatic_dispersion += self.chromatic_dispersion(spectral_info.frequency)\n        spectral_info.pmd = sqrt(spectral_info.pmd ** 2 + self.pmd ** 2)\n\n        # latency\n        spectral_info.latency += self.params.latency\n\n        # apply the attenuation due to the fiber losses\n        attenuation_fiber = stimulated_raman_scattering.loss_profile[:, -1]')]},
    },
    'C08': {
        'n_spans_off_by_one': {'edits': [('gnpy/core/network.py', '    n_spans1 = n_spans2 + 1\n', '    n_spans1 = n_spans2 + 2\n')],
                               'only': 'design'},
        'padding_on_fibre_not_span': {'edits': [('gnpy/core/network.py', '        this_span_loss = span_loss(network, fiber, equipment)\n        fiber.design_span_loss = this_span_loss\n',
                                                 '        this_span_loss = fiber.loss + 12\n        fiber.design_span_loss = this_span_loss\n')], 'only': 'design'},
        'no_booster_when_next_is_fibre': {'edits': [('gnpy/core/network.py', "    next_nodes = [n for n in network.successors(roadm)\n                  if not isinstance(n, (elements.Transceiver, elements.Fused, elements.Edfa,\n                                        elements.Multiband_amplifier))]",
                                                     "    next_nodes = [n for n in network.successors(roadm)\n                  if not isinstance(n, (elements.Transceiver, elements.Fused, elements.Edfa,\n                                        elements.Multiband_amplifier)) and len(list(network.successors(roadm))) < 4]")], 'only': 'design'},
        'split_drops_last_span_length': {'edits': [('gnpy/core/network.py', '    length1 = fiber_length / n_spans1\n', '    length1 = fiber_length / n_spans1 * 0.999\n')], 'only': 'design'},
        'eol_not_added_when_con_out_given': {'edits': [('gnpy/core/network.py', '        if fiber.params.con_out is None:\n            fiber.params.con_out = default_con_out\n',
                                                        '        if fiber.params.con_out is None and fiber.params.length > 3000:\n            fiber.params.con_out = default_con_out\n')], 'only': 'design'},
    },
    'C09': {
        'prev_voa_sign': {'edits': [('gnpy/core/network.py', 'gain_target = node_loss + deviation_db + dp - prev_dp + prev_voa + in_voa', 'gain_target = node_loss + deviation_db + dp - prev_dp - prev_voa + in_voa')]},
        'rule_rounds_down': {'edits': [('gnpy/core/network.py', "        dp = round2float((node_loss - equipment['Span']['default'].span_loss_ref)\n                         * equipment['Span']['default'].power_slope, dp_range[2])",
                                        "        dp = round2float((node_loss - equipment['Span']['default'].span_loss_ref)\n                         * equipment['Span']['default'].power_slope - 0.49 * dp_range[2], dp_range[2])")]},
        'saturation_too_lenient': {'edits': [('gnpy/core/network.py', '            power_reduction = min(0, p_max - (pref_total_db + dp))', '            power_reduction = min(0, p_max + 2 - (pref_total_db + dp))')]},
        'span_loss_forgets_following_fused': {'edits': [('gnpy/core/network.py', '    loss += sum(n.loss for n in next_node_generator(network, node))\n', '    pass\n')]},
        'dp_before_roadm_not_zero': {'edits': [('gnpy/core/network.py', '    if isinstance(node, elements.Roadm):\n        return 0\n', '    if isinstance(node, elements.Roadm):\n        return 1\n')]},
        'user_delta_p_ignored_when_voa': {'edits': [('gnpy/core/network.py', '        dp = node.operational.delta_p\n', '        dp = node.operational.delta_p + voa\n')]},
        'eol_not_in_span_loss': {'edits': [('gnpy/core/network.py', '            fiber.params.con_out += EOL\n', '            fiber.params.con_out += EOL\n            fiber.design_span_loss = fiber.loss - EOL if hasattr(fiber, "uid") and EOL else fiber.loss\n')]},
    },
}
