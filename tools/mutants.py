"""Registry of hand-written mutants for tools/mutation_selftest.py.
MUTANTS[property][name] = {'edits': [(file relative to repo root, old text, new text)], 'only': optional sub-check}
Every mutant compiles; they model realistic slips at the mechanisms the property is anchored in.
"""

MUTANTS = {
    'C01': {
        'add_ase_forgets_nli_rescale': {'edits': [('gnpy/core/info.py', '        self._nli_ratio *= self.pch / pch\n', '        pass\n')]},
        'add_nli_forgets_ase_rescale': {'edits': [('gnpy/core/info.py', '        self._ase_ratio *= (1 - nli_ratio)\n', '        pass\n')]},
        'mux_loses_ratio': {'edits': [('gnpy/core/info.py', 'nli_ratio=append(self._nli_ratio, other._nli_ratio)',
                                       'nli_ratio=append(self._nli_ratio, other._nli_ratio * 0)')]},
        'gsnr_ignores_nli_in_db': {'edits': [('gnpy/core/elements.py', '            self.raw_snr = spectral_info.gsnr_db\n',
                                              '            self.raw_snr = spectral_info.snr_lin_db\n')]},
    },
    'C02': {
        'roadm_attenuates_signal_share_only': {'edits': [('gnpy/core/elements.py',
                                                          '        spectral_info.apply_attenuation_db(delta_power)\n',
                                                          '        spectral_info.apply_attenuation_db(delta_power)\n'
                                                          '        spectral_info._ase_ratio = spectral_info._ase_ratio * 0.999\n')]},
        'edfa_rescales_nli_twice': {'edits': [('gnpy/core/info.py', '        self._nli_ratio *= self.pch / pch\n',
                                               '        self._nli_ratio *= (self.pch / pch) ** 2\n')]},
        'fiber_nli_sign': {'edits': [('gnpy/core/elements.py', '        nli = NliSolver.compute_nli(spectral_info, stimulated_raman_scattering, self)\n        spectral_info.add_nli(nli)\n\n        # chromatic dispersion and pmd variations\n        spectral_info.chromatic_dispersion += self.chromatic_dispersion(spectral_info.frequency)\n        spectral_info.pmd = sqrt(spectral_info.pmd ** 2 + self.pmd ** 2)\n\n        # latency\n        spectral_info.latency += self.params.latency\n\n        # apply the attenuation due to the fiber losses\n        attenuation_fiber = stimulated_raman_scattering.loss_profile[:, -1]',
                                      '        nli = NliSolver.compute_nli(spectral_info, stimulated_raman_scattering, self)\n        spectral_info.add_nli(-nli)\n\n        # chromatic dispersion and pmd variations\n        spectral_info.chromatic_dispersion += self.chromatic_dispersion(spectral_info.frequency)\n        spectral_info.pmd = sqrt(spectral_info.pmd ** 2 + self.pmd ** 2)\n\n        # latency\n        spectral_info.latency += self.params.latency\n\n        # apply the attenuation due to the fiber losses\n        attenuation_fiber = stimulated_raman_scattering.loss_profile[:, -1]')]},
    },
    'C08': {
        'n_spans_off_by_one': {'edits': [('gnpy/core/network.py', '    n_spans1 = n_spans2 + 1\n', '    n_spans1 = n_spans2 + 2\n')],
                               'only': 'design'},
        'padding_on_fibre_not_span': {'edits': [('gnpy/core/network.py', '        this_span_loss = span_loss(network, fiber, equipment)\n        fiber.design_span_loss = this_span_loss\n',
                                                 '        this_span_loss = fiber.loss + 12\n        fiber.design_span_loss = this_span_loss\n')], 'only': 'design'},
        'no_booster_when_next_is_fibre': {'edits': [('gnpy/core/network.py', "    next_nodes = [n for n in network.successors(roadm)\n                  if not isinstance(n, (elements.Transceiver, elements.Fused, elements.Edfa,\n                                        elements.Multiband_amplifier))]",
                                                     "    next_nodes = [n for n in network.successors(roadm)\n                  if not isinstance(n, (elements.Transceiver, elements.Fused, elements.Edfa,\n                                        elements.Multiband_amplifier)) and len(list(network.successors(roadm))) < 4]")], 'only': 'design'},
        'split_drops_last_span_length': {'edits': [('gnpy/core/network.py', '    length1 = fiber_length / n_spans1\n', '    length1 = fiber_length / n_spans1 * 0.999\n')], 'only': 'design'},
        'eol_not_added_when_con_out_given': {'edits': [('gnpy/core/network.py', '        if fiber.params.con_out is None:\n            fiber.params.con_out = default_con_out\n',
                                                        '        if fiber.params.con_out is None and fiber.params.length > 3000:\n            fiber.params.con_out = default_con_out\n')], 'only': 'design'},
    },
    'C09': {
        'prev_voa_sign': {'edits': [('gnpy/core/network.py', 'gain_target = node_loss + deviation_db + dp - prev_dp + prev_voa + in_voa', 'gain_target = node_loss + deviation_db + dp - prev_dp - prev_voa + in_voa')]},
        'rule_rounds_down': {'edits': [('gnpy/core/network.py', "        dp = round2float((node_loss - equipment['Span']['default'].span_loss_ref)\n                         * equipment['Span']['default'].power_slope, dp_range[2])",
                                        "        dp = round2float((node_loss - equipment['Span']['default'].span_loss_ref)\n                         * equipment['Span']['default'].power_slope - 0.49 * dp_range[2], dp_range[2])")]},
        'saturation_too_lenient': {'edits': [('gnpy/core/network.py', '            power_reduction = min(0, p_max - (pref_total_db + dp))', '            power_reduction = min(0, p_max + 2 - (pref_total_db + dp))')]},
        'span_loss_forgets_following_fused': {'edits': [('gnpy/core/network.py', '    loss += sum(n.loss for n in next_node_generator(network, node))\n', '    pass\n')]},
        'dp_before_roadm_not_zero': {'edits': [('gnpy/core/network.py', '    if isinstance(node, elements.Roadm):\n        return 0\n', '    if isinstance(node, elements.Roadm):\n        return 1\n')]},
        'user_delta_p_ignored_when_voa': {'edits': [('gnpy/core/network.py', '        dp = node.operational.delta_p\n', '        dp = node.operational.delta_p + voa\n')]},
        'eol_not_in_span_loss': {'edits': [('gnpy/core/network.py', '            fiber.params.con_out += EOL\n', '            fiber.params.con_out += EOL\n            fiber.design_span_loss = fiber.loss - EOL if hasattr(fiber, "uid") and EOL else fiber.loss\n')]},
    },
    'C10': {
        'picks_noisiest': {'edits': [('gnpy/core/network.py', "selected_edfa = min(acceptable_power_list, key=attrgetter('nf'))", "selected_edfa = max(acceptable_power_list, key=attrgetter('nf'))")]},
        'power_filter_lenient': {'edits': [('gnpy/core/network.py', '    acceptable_power_list = [x for x in acceptable_gain_min_list if x.power > 0]', '    acceptable_power_list = [x for x in acceptable_gain_min_list if x.power >= -1]')]},
        'booster_preamp_lists_swapped': {'edits': [('gnpy/core/network.py', "    elif isinstance(prev_node, elements.Roadm) and prev_node.restrictions['booster_variety_list']:\n        # implementation of restrictions on roadm boosters\n        restrictions = prev_node.restrictions['booster_variety_list']",
                                                    "    elif isinstance(prev_node, elements.Roadm) and prev_node.restrictions['preamp_variety_list']:\n        # implementation of restrictions on roadm boosters\n        restrictions = prev_node.restrictions['preamp_variety_list']")], 'only': 'network'},
        'band_filter_dropped': {'edits': [('gnpy/core/network.py', "                     if (a.type_def != 'multi_band' and a.f_min <= band['f_min'] and a.f_max >= band['f_max'])",
                                           "                     if (a.type_def != 'multi_band')")], 'only': 'network'},
        'raman_rule_inverted': {'edits': [('gnpy/core/network.py', '        raman_allowed = (prev_node.params.loss_coef < max_fiber_lineic_loss_for_raman).all()', '        raman_allowed = (prev_node.params.loss_coef > max_fiber_lineic_loss_for_raman).all()')], 'only': 'network'},
        'variety_list_ignored': {'edits': [('gnpy/core/network.py', '    if node.variety_list and isinstance(node.variety_list, list):', '    if False and isinstance(node.variety_list, list):')], 'only': 'network'},
        'nf_ranked_at_other_gain': {'edits': [('gnpy/core/network.py', "        nf=edfa_nf(gain_target, edfa_eqpt[edfa_variety]),\n        f_min=edfa.f_min,\n        f_max=edfa.f_max)\n        for edfa_variety, edfa in edfa_dict.items()\n        if not edfa.raman]",
                                               "        nf=edfa_nf(gain_target + 6, edfa_eqpt[edfa_variety]),\n        f_min=edfa.f_min,\n        f_max=edfa.f_max)\n        for edfa_variety, edfa in edfa_dict.items()\n        if not edfa.raman]")]},
        'min_gain_allowance_dropped': {'edits': [('gnpy/core/network.py', '        gain_min=gain_target + 3 - edfa.gain_min,', '        gain_min=gain_target - 3 - edfa.gain_min,')]},
    },
    'C11': {
        'ispart_ignores_order': {'edits': [('gnpy/topology/request.py', '            if pthb.index(elem) >= j:\n                j = pthb.index(elem)\n            else:\n                return False', '            if pthb.index(elem) >= 0:\n                j = pthb.index(elem)\n            else:\n                return False')]},
        'weight_is_hop_count': {'edits': [('gnpy/topology/request.py', "        path_generator = shortest_simple_paths(network, source, destination, weight='weight')", "        path_generator = shortest_simple_paths(network, source, destination, weight=None)")]},
        'loose_fallback_returns_nothing': {'edits': [('gnpy/topology/request.py', "            total_path = dijkstra_path(network, source, destination, weight='weight')", "            total_path = []")]},
        'reverse_path_from_forward_oms': {'edits': [('gnpy/topology/request.py', 'reversed([el.oms.reversed_oms for el in pth', 'reversed([el.oms for el in pth')]},
        'strict_check_skips_last_item': {'edits': [('gnpy/topology/request.py', "        if 'STRICT' not in req.loose_list[:-1]:", "        if 'STRICT' not in req.loose_list[:-2]:")]},
        'split_fibre_edge_weight_lost': {'edits': [('gnpy/core/network.py', '        if isinstance(prev_node, elements.Fiber):\n            edgeweight = prev_node.params.length\n        else:\n            edgeweight = 0.01\n        network.add_edge(prev_node, new_span, weight=edgeweight)', '        edgeweight = 0.01\n        network.add_edge(prev_node, new_span, weight=edgeweight)')]},
        'explicit_path_unchecked': {'edits': [('gnpy/topology/request.py', '    if len(unique_ordered(path)) != len(path) or not ispart(node_list, path):', '    if False:')]},
    },
    'C12': {
        'reverse_direction_not_checked': {'edits': [('gnpy/topology/request.py', 'all_disjoint += isdisjoint(pth1, pth) + isdisjoint(pth1_reversed, pth)', 'all_disjoint += isdisjoint(pth1, pth)')]},
        'isdisjoint_always_true': {'edits': [('gnpy/topology/request.py', '    for edge in edge1:\n        if edge in edge2:\n            return 1\n    return 0', '    for edge in edge1[:1]:\n        if edge in edge2:\n            return 1\n    return 0')]},
        'third_member_not_checked': {'edits': [('gnpy/topology/request.py', '                    for pth in cndt:\n                        all_disjoint += isdisjoint', '                    for pth in cndt[:1]:\n                        all_disjoint += isdisjoint')]},
        'step3_pruning_removed': {'edits': [('gnpy/topology/request.py', '            if iscandidate != 0:\n', '            if False:\n')]},
        'include_check_on_short_list': {'edits': [('gnpy/topology/request.py', "[e.uid for e in allpaths[id(pth)].pth]):", "pth):")]},
    },
}
