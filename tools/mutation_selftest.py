#!/venv/bin/python
"""Sensitivity self-test (DESIGN §5): apply one textual mutant to a scratch copy of /repo/gnpy, run the property's
quick check against it (GNPY_SRC), require exit 1 and a replay file that fails again under --replay on the mutant
and passes on the unchanged tree. Scratch copies live under /tmp and are removed.

usage: tools/mutation_selftest.py C08 [mutant-name ...]      (mutants are listed in tools/mutants.py)
"""
import os
import shutil
import subprocess
import sys
import tempfile
import time
from pathlib import Path

ROOT = Path(__file__).resolve().parent.parent
sys.path.insert(0, str(ROOT))
from tools.mutants import MUTANTS  # noqa


def run(prop, name, spec, scale=None):
    tmp = Path(tempfile.mkdtemp(prefix=f'mut-{prop}-', dir='/tmp'))
    try:
        shutil.copytree('/repo/gnpy', tmp / 'gnpy', ignore=shutil.ignore_patterns('__pycache__'))
        for f, old, new in spec['edits']:
            p = tmp / f
            s = p.read_text()
            if s.count(old) < 1:
                return name, 'STALE', f'pattern not found in {f}'
            p.write_text(s.replace(old, new, 1))
        env = dict(os.environ, GNPY_SRC=str(tmp), VERIF_FOUND_DIR=str(tmp / 'found'))
        cmd = [str(ROOT / 'check'), prop, '--tier', 'quick']
        if spec.get('only'):
            cmd += ['--only', spec['only']]
        if scale:
            cmd += ['--scale', str(scale)]
        t0 = time.time()
        r = subprocess.run(cmd, capture_output=True, text=True, env=env)
        wall = time.time() - t0
        if r.returncode != 1:
            return name, 'MISSED', f'exit {r.returncode} in {wall:.0f}s: {r.stdout[-300:]} {r.stderr[-300:]}'
        replays = [ln.split('replay=')[1].strip() for ln in r.stdout.splitlines() if ln.startswith('VIOLATION')]
        sigs = [ln.strip() for ln in r.stdout.splitlines() if ln.strip().startswith('signature=')]
        # replay must fail on the mutant and pass on the unchanged tree
        rp = replays[0]
        r1 = subprocess.run([str(ROOT / 'check'), prop, '--replay', rp], capture_output=True, text=True, env=env)
        env2 = {k: v for k, v in os.environ.items() if k != 'GNPY_SRC'}
        r2 = subprocess.run([str(ROOT / 'check'), prop, '--replay', rp], capture_output=True, text=True, env=env2)
        ok = r1.returncode == 1 and r2.returncode == 0
        return name, 'CAUGHT' if ok else 'CAUGHT-BUT-REPLAY-INCONSISTENT', \
            f'{wall:.0f}s {sigs[0] if sigs else ""} replay-on-mutant={r1.returncode} replay-on-clean={r2.returncode}'
    finally:
        shutil.rmtree(tmp, ignore_errors=True)


def main():
    prop = sys.argv[1].upper()
    names = sys.argv[2:]
    todo = {k: v for k, v in MUTANTS.get(prop, {}).items() if not names or k in names}
    if not todo:
        print('no mutants registered for', prop)
        return 2
    bad = 0
    for name, spec in todo.items():
        n, status, info = run(prop, name, spec)
        print(f'{prop} {n}: {status} {info}', flush=True)
        bad += status != 'CAUGHT'
    return 1 if bad else 0


if __name__ == '__main__':
    sys.exit(main())
