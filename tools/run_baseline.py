#!/venv/bin/python
"""Run the repository's pinned test command (BASELINE.json) and compare with its stable_pass list.
usage: tools/run_baseline.py [repo_dir]     exit 0 iff every stable_pass test passed."""
import json, subprocess, sys, tempfile, os
import xml.etree.ElementTree as ET
repo = sys.argv[1] if len(sys.argv) > 1 else '/repo'
base = json.load(open('/root/.vp/BASELINE.json'))
with tempfile.TemporaryDirectory(dir='/dev/shm') as d:
    xml = os.path.join(d, 'j.xml')
    cmd = ['/venv/bin/python', '-m', 'pytest', '-ra', '-q', '-p', 'no:cacheprovider', '--timeout=900',
           '--continue-on-collection-errors', f'--junitxml={xml}']
    env = dict(os.environ)
    if repo != '/repo':
        env['PYTHONPATH'] = repo
    r = subprocess.run(cmd, cwd=repo, env=env, capture_output=True, text=True)
    passed = set()
    for tc in ET.parse(xml).getroot().iter('testcase'):
        if not any(ch.tag in ('failure', 'error', 'skipped') for ch in tc):
            passed.add(f"{tc.get('classname')}::{tc.get('name')}")
missing = [t for t in base['stable_pass'] if t not in passed]
print(f'passed={len(passed)} stable_pass={len(base["stable_pass"])} missing={len(missing)}')
for m in missing[:20]:
    print('  NOT PASSING:', m)
sys.exit(1 if missing else 0)
