#!/venv/bin/python
"""Run checks against the seeded changes kept under /verif/seeded/<id>/ (patch.diff, demo.py, meta.json).

For each seeded change: copy /repo/gnpy to a scratch directory under /tmp, apply patch.diff there, run the demonstration
program (must FAIL on the patched copy and PASS on /repo) and the quick tier of the property's check with GNPY_SRC pointing at
the patched copy (must exit 1 with a VIOLATION line). Nothing is applied to /repo itself; scratch copies are removed.

usage: tools/run_seeded.py [seed-id ...] [--checks C01,C02] [--tier quick|thorough] [--no-demo]
"""
import json
import os
import shutil
import subprocess
import sys
import tempfile
import time
from pathlib import Path

ROOT = Path(__file__).resolve().parent.parent
SEEDED = ROOT / 'seeded'


def run_one(sid, checks=None, tier='quick', demo=True):
    d = SEEDED / sid
    meta = json.loads((d / 'meta.json').read_text())
    tmp = Path(tempfile.mkdtemp(prefix=f'seeded-{sid}-', dir='/tmp'))
    out = {'id': sid, 'property': meta['property']}
    try:
        for name in ('gnpy', 'tests', 'docs'):
            shutil.copytree(f'/repo/{name}', tmp / name, ignore=shutil.ignore_patterns('__pycache__'))
        r = subprocess.run(['patch', '-p1', '-s', '-i', str(d / 'patch.diff')], cwd=tmp, capture_output=True, text=True)
        if r.returncode != 0:
            out['status'] = 'PATCH-DOES-NOT-APPLY'
            out['info'] = (r.stdout + r.stderr)[-300:]
            return out
        if demo and (d / 'demo.py').exists():
            env = dict(os.environ, PYTHONPATH=str(tmp))
            r1 = subprocess.run(['/venv/bin/python', str(d / 'demo.py')], cwd=tmp, env=env, capture_output=True, text=True)
            env0 = dict(os.environ, PYTHONPATH='/repo')
            r0 = subprocess.run(['/venv/bin/python', str(d / 'demo.py')], cwd='/repo', env=env0, capture_output=True, text=True)
            out['demo'] = f'patched rc={r1.returncode} clean rc={r0.returncode}'
            if r1.returncode == 0 or r0.returncode != 0:
                out['status'] = 'DEMO-INCONSISTENT'
                out['info'] = (r1.stdout[-200:] + ' | ' + r0.stdout[-200:] + r0.stderr[-200:])
                return out
        results = {}
        for prop in (checks or meta.get('checks') or [meta['property']]):
            env = dict(os.environ, GNPY_SRC=str(tmp), VERIF_FOUND_DIR=str(tmp / 'found'))
            t0 = time.time()
            r = subprocess.run([str(ROOT / 'check'), prop, '--tier', tier], capture_output=True, text=True, env=env)
            sigs = [ln.strip()[len('signature='):] for ln in r.stdout.splitlines() if ln.strip().startswith('signature=')]
            results[prop] = {'rc': r.returncode, 'wall_s': round(time.time() - t0), 'signatures': sigs[:4]}
            if r.returncode == 2:
                results[prop]['stderr'] = r.stderr[-300:]
        out['checks'] = results
        out['status'] = 'CAUGHT' if any(v['rc'] == 1 for v in results.values()) else 'MISSED'
        return out
    finally:
        shutil.rmtree(tmp, ignore_errors=True)


def main():
    args = [a for a in sys.argv[1:] if not a.startswith('--')]
    opts = {a.split('=')[0]: (a.split('=') + [''])[1] for a in sys.argv[1:] if a.startswith('--')}
    checks = opts['--checks'].split(',') if opts.get('--checks') else None
    tier = opts.get('--tier') or 'quick'
    ids = args or sorted(p.name for p in SEEDED.iterdir() if (p / 'meta.json').exists())
    bad = 0
    for sid in ids:
        res = run_one(sid, checks, tier, demo='--no-demo' not in opts)
        print(json.dumps(res), flush=True)
        bad += res['status'] != 'CAUGHT'
    return 1 if bad else 0


if __name__ == '__main__':
    sys.exit(main())
