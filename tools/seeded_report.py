#!/venv/bin/python
"""Markdown table of the seeded changes: what each needs, whether the quick tier caught it at the first confrontation
(seeded/FIRST_PASS.json) and now (seeded/RESULTS.jsonl, written by tools/run_seeded.py), with the signatures.
usage: tools/seeded_report.py > table.md"""
import json
from pathlib import Path
ROOT = Path(__file__).resolve().parent.parent
first = json.loads((ROOT / 'seeded' / 'FIRST_PASS.json').read_text())
res = {}
p = ROOT / 'seeded' / 'RESULTS.jsonl'
if p.exists():
    for line in p.read_text().splitlines():
        try:
            d = json.loads(line)
        except ValueError:
            continue
        res[d['id']] = d
print('| seed | property | what the change does / needs | first pass | now | caught by (signatures) |')
print('|------|----------|------------------------------|------------|-----|------------------------|')
for d in sorted((ROOT / 'seeded').iterdir()):
    if not (d / 'meta.json').exists():
        continue
    m = json.loads((d / 'meta.json').read_text())
    r = res.get(m['id'], {})
    sigs = []
    for chk, v in (r.get('checks') or {}).items():
        if v.get('rc') == 1:
            sigs.append(f"{chk}: " + ', '.join(f'`{s}`' for s in v.get('signatures', [])[:2]))
    print(f"| {m['id']} | {m['property']} | {m['needs']} | {first.get(m['id'], '-').lower()} | "
          f"{r.get('status', '-').lower()} | {'; '.join(sigs)} |")
